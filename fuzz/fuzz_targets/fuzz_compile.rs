#![no_main]
//! C06: any UTF-8 string compiles to Ok or Err without panic, crash, overflow or oversized allocation.
use libfuzzer_sys::fuzz_target;

#[global_allocator]
static ALLOC: frv::alloc_count::Counting = frv::alloc_count::Counting;

fuzz_target!(|data: &[u8]| {
    if let Ok(s) = std::str::from_utf8(data) {
        if let Err(f) = frv::props::c06::check_compile(s) {
            panic!("C06 violation kind={} expected={} actual={}", f.kind, f.expected, f.actual);
        }
    }
});
