#![no_main]
//! C01/C02: spans and captures equal the reference matcher, for byte-decoded core patterns
//! (decoder and oracle: harness/src/fuzzdec.rs; known-finding classes are excluded there).
use libfuzzer_sys::fuzz_target;

fuzz_target!(|data: &[u8]| {
    // the naive reference interpreter and the crate's own recursion get a large stack (ASan frames are big)
    let data = data.to_vec();
    let found = std::thread::Builder::new().stack_size(512 << 20).spawn(move || frv::fuzzdec::run_diff(&data)).unwrap().join().unwrap();
    if let Some(f) = found {
        panic!("C02 violation {}", frv::fuzzdec::describe(&f));
    }
});
