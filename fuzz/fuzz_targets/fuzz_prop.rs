#![no_main]
//! Generic target: the property whose oracle runs inside the target is chosen by the environment variable
//! FRV_FUZZ_PROP (C02-flags C03 C04 C07 C08 C09 C10 C11 C12 C14 C15 C16 C17 C19 C20); decoders and oracles are the
//! harness's own (harness/src/fuzzdec.rs), known-finding classes are excluded there.
use libfuzzer_sys::fuzz_target;

use std::sync::mpsc::{channel, Receiver, Sender};
use std::sync::{Mutex, OnceLock};

/// one long-lived worker thread with a large stack (the naive reference interpreter and the crate's own
/// recursion need it under ASan)
static WORKER: OnceLock<Mutex<(Sender<Vec<u8>>, Receiver<Option<String>>)>> = OnceLock::new();

fn worker() -> &'static Mutex<(Sender<Vec<u8>>, Receiver<Option<String>>)> {
    WORKER.get_or_init(|| {
        let prop = std::env::var("FRV_FUZZ_PROP").expect("FRV_FUZZ_PROP names the property");
        frv::engine::silence_panics();
        let (tx, rx) = channel::<Vec<u8>>();
        let (rtx, rrx) = channel::<Option<String>>();
        std::thread::Builder::new()
            .stack_size(1 << 30)
            .spawn(move || {
                for data in rx {
                    let r = frv::fuzzdec::prop_violation(&prop, &data).map(|(case, f)| format!("case={} kind={} expected={} actual={}", case, f.kind, f.expected, f.actual));
                    if rtx.send(r).is_err() {
                        break;
                    }
                }
            })
            .unwrap();
        Mutex::new((tx, rrx))
    })
}

fuzz_target!(|data: &[u8]| {
    let w = worker().lock().unwrap();
    w.0.send(data.to_vec()).unwrap();
    if let Some(desc) = w.1.recv().unwrap() {
        panic!("violation {}", desc);
    }
});
