#![no_main]
//! C05: every search entry point returns normally with valid spans, for byte-decoded unrestricted
//! patterns and multi-byte texts (decoder and oracle: harness/src/fuzzdec.rs).
use libfuzzer_sys::fuzz_target;

fuzz_target!(|data: &[u8]| {
    // the naive reference interpreter and the crate's own recursion get a large stack (ASan frames are big)
    let data = data.to_vec();
    let found = std::thread::Builder::new().stack_size(512 << 20).spawn(move || frv::fuzzdec::run_search(&data)).unwrap().join().unwrap();
    if let Some(f) = found {
        panic!("C05 violation {}", frv::fuzzdec::describe(&f));
    }
});
