#![no_main]
//! C05: every search entry point returns normally with valid spans, for byte-decoded unrestricted
//! patterns and multi-byte texts (decoder and oracle: harness/src/fuzzdec.rs).
use libfuzzer_sys::fuzz_target;

use std::sync::mpsc::{channel, Receiver, Sender};
use std::sync::{Mutex, OnceLock};

/// one long-lived worker thread with a large stack (the naive reference interpreter and the crate's own
/// recursion need it under ASan); creating a thread per execution would dominate the run time
static WORKER: OnceLock<Mutex<(Sender<Vec<u8>>, Receiver<Option<String>>)>> = OnceLock::new();

fn worker() -> &'static Mutex<(Sender<Vec<u8>>, Receiver<Option<String>>)> {
    WORKER.get_or_init(|| {
        let (tx, rx) = channel::<Vec<u8>>();
        let (rtx, rrx) = channel::<Option<String>>();
        std::thread::Builder::new()
            .stack_size(1 << 30)
            .spawn(move || {
                for data in rx {
                    let r = frv::fuzzdec::run_search(&data).map(|f| frv::fuzzdec::describe(&f));
                    if rtx.send(r).is_err() {
                        break;
                    }
                }
            })
            .unwrap();
        Mutex::new((tx, rrx))
    })
}

fuzz_target!(|data: &[u8]| {
    let w = worker().lock().unwrap();
    w.0.send(data.to_vec()).unwrap();
    if let Some(desc) = w.1.recv().unwrap() {
        panic!("violation {}", desc);
    }
});
