#!/usr/bin/env python3
import json, sys
pid = sys.argv[1]; n = sys.argv[2] if len(sys.argv) > 2 else "2"
for l in open('/verif/properties.jsonl'):
    p = json.loads(l)
    if p['id'] == pid: break
print(f"""You are helping test a verification effort for the Rust crate fancy-regex (a hybrid regex engine: parser -> analysis -> compiler to a backtracking VM that delegates easy sub-expressions to regex-automata). You have your own scratch git worktree of the repository at /tmp/wt/{pid} (work ONLY there; never touch /repo or /verif; do not read anything under /verif). The sandbox is offline: use `cargo ... --offline` (CARGO_NET_OFFLINE=true). The existing test suite is run with `cd /tmp/wt/{pid} && cargo test --workspace --no-fail-fast --offline` and currently passes (172 tests + doctests).

Here is a semantic property of fancy-regex that should hold:

  {p['id']} - {p['title']}
  {p['statement']}

Your task: produce {n} DIFFERENT, realistic source changes ("seeded bugs") to the crate's sources (src/*.rs) such that each change, on its own:
  1. still compiles,
  2. keeps the ENTIRE existing test suite passing (run it! all tests including tests/oniguruma.rs and doctests),
  3. breaks the property above,
  4. needs something specific to manifest - an unusual input, a particular combination of pattern features, a multi-step sequence of calls, a particular option setting, or two cooperating code sites that each look fine alone - NOT something ordinary use would expose at once (a change that breaks `a+` on "aaa" is too shallow). Think of the kind of slip a maintainer could really make while refactoring or optimising (off-by-one in a bound, a dropped condition in an analysis rule, wrong slot/offset arithmetic, a missing restore on one path, char-vs-byte confusion, a flag not passed along one API path, ...). Do not touch tests, do not add cfg-gated or feature-gated code (ignore any `verif-hooks` feature code; do not modify src/verif_hooks.rs), keep each change small (a few lines).

For each change i (1..{n}) create the directory /tmp/wt/{pid}/seeded_out/m<i>/ containing:
  - patch.diff : `git diff` of the change against HEAD (src files only), applicable with `git apply` from the repository root,
  - demo.rs    : a small self-contained integration test file (to be dropped into tests/ as tests/demo_seeded.rs, using only the public API of fancy_regex and std) with one or more #[test] functions that FAIL with your change applied and PASS on the unchanged sources,
  - meta.json  : {{"property": "{pid}", "summary": "<one line>", "needs": "<what is needed for the bug to manifest>", "files": ["src/..."], "demo_fails_with_patch": true, "demo_passes_without_patch": true, "suite_passes_with_patch": true}}
Verify all three booleans yourself by actually running: (a) with patch applied: full suite passes, demo fails; (b) after `git checkout -- src` (patch reverted): demo passes. Leave the worktree with the patch REVERTED (clean `git status` apart from seeded_out/ and build output) when you finish. Make the {n} changes independent of each other (each patch.diff applies to clean HEAD) and touching different mechanisms if you can.

Report back briefly: for each change, the one-line summary and what it needs to manifest.""")
