#!/bin/bash
# usage: confirm_seed.sh <worktree> <seed-dir>   -- confirms: patch applies, suite passes with it, demo fails with it, demo passes without it
wt=$1; d=$2
cd "$wt" || exit 2
git checkout -q -- . ; rm -f tests/demo_seeded.rs
git apply --check "$d/patch.diff" || { echo "PATCH DOES NOT APPLY"; exit 1; }
git apply "$d/patch.diff"
suite=$(CARGO_NET_OFFLINE=true cargo test --workspace --no-fail-fast --offline 2>&1 | grep -E "^test result" | awk '{p+=$4; f+=$6} END {print p" passed "f" failed"}')
cp "$d/demo.rs" tests/demo_seeded.rs
with=$(CARGO_NET_OFFLINE=true cargo test --offline --test demo_seeded 2>&1 | grep -E "^test result" | head -1)
git checkout -q -- .
without=$(CARGO_NET_OFFLINE=true cargo test --offline --test demo_seeded 2>&1 | grep -E "^test result" | head -1)
rm -f tests/demo_seeded.rs
echo "suite-with-patch: $suite | demo-with-patch: $with | demo-without-patch: $without"
