#!/bin/bash
# usage: confirm_seed.sh <worktree> <seed-dir>   -- brings the scratch worktree to /repo's current HEAD, (re)applies the
# patch (3-way, rewriting patch.diff if it had to be rebased) and confirms: suite passes with it, demo fails with it, demo passes without it
wt=$1; d=$2
cd "$wt" || exit 2
git checkout -q -- . ; rm -f tests/demo_seeded.rs
git checkout -q --detach main 2>/dev/null
if ! git apply --check "$d/patch.diff" 2>/dev/null; then
  if git apply --3way "$d/patch.diff" >/dev/null 2>&1 && [ -z "$(git diff --name-only --diff-filter=U)" ]; then
    git diff HEAD -- src > "$d/patch.diff"; git reset -q --hard
    echo "NOTE: patch rebased onto current HEAD"
  else
    git reset -q --hard; echo "PATCH DOES NOT APPLY to current HEAD"; exit 1
  fi
fi
git apply "$d/patch.diff"
suite=$(CARGO_NET_OFFLINE=true cargo test --workspace --no-fail-fast --offline 2>&1 | grep -E "^test result" | awk '{p+=$4; f+=$6} END {print p" passed "f" failed"}')
cp "$d/demo.rs" tests/demo_seeded.rs
with=$(CARGO_NET_OFFLINE=true cargo test --offline --test demo_seeded 2>&1 | grep -E "^test result" | head -1)
git checkout -q -- .
without=$(CARGO_NET_OFFLINE=true cargo test --offline --test demo_seeded 2>&1 | grep -E "^test result" | head -1)
rm -f tests/demo_seeded.rs
echo "at $(git rev-parse --short HEAD): suite-with-patch: $suite | demo-with-patch: $with | demo-without-patch: $without"
