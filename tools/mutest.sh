#!/bin/bash
# usage: mutest.sh <patch.diff> <ID> [<ID>...]  -- applies the patch to /repo, runs the quick checks, reverts
patch=$1; shift
cd /repo || exit 2
if [ -n "$(git status --porcelain --untracked-files=no)" ]; then echo "/repo not clean"; exit 2; fi
git apply "$patch" || { echo "patch does not apply"; exit 2; }
# evidence written while a patch is applied is not evidence about the tree: keep the real files aside
rm -rf /verif/harness/target/evidence.keep; cp -r /verif/evidence /verif/harness/target/evidence.keep 2>/dev/null
for id in "$@"; do
  out=$(cd /verif && VERIF_SEED=${VERIF_SEED:-1} timeout 1200 ./check $id ${TIER:-quick} 2>&1); rc=$?
  echo "== $id rc=$rc $(echo "$out" | grep -E '^violation|^regression' | head -1 | cut -c1-400)"
  echo "$out" | grep -E "^$id " | head -1
done
git -C /repo checkout -- .
# rebuild the harness against the clean tree, so that no stale binary built from the patched sources is left behind
(cd /verif/harness && CARGO_NET_OFFLINE=true cargo build --release --offline >/dev/null 2>&1)
rm -f /verif/replays/*/found-*.json
if [ -d /verif/harness/target/evidence.keep ]; then rm -rf /verif/evidence; mv /verif/harness/target/evidence.keep /verif/evidence; fi
