#!/usr/bin/env python3
"""merge /tmp/mt/results.tsv (written by seed_all_scratch.sh) into the seeds' meta.json files"""
import json, sys, os
MT = os.environ.get('MT', '/tmp/mt')
rows = [r for r in (l.rstrip('\n').split('\t') for l in open(MT + '/results.tsv', errors='replace') if '\t' in l) if len(r) == 4 and (r[2].isdigit() or r[1] == '-')]
for seed, cid, rc, first in rows:
    if cid == '-': print('!!', seed, first); continue
    p = f'/verif/seeded/{seed}/meta.json'
    m = json.load(open(p))
    m.setdefault('checks_run', {})[cid] = {'exit': int(rc), 'caught': rc == '1', 'first_violation': first}
    m['how_rerun'] = 'tools/seed_all_scratch.sh: patch applied to a scratch worktree of /repo at HEAD, quick check run from a scratch copy of /verif pointing at it'
    json.dump(m, open(p, 'w'), indent=1)
    if rc != '1': print('NOT CAUGHT', seed, cid, 'rc=' + rc)
