#!/bin/bash
# usage: seed_all_scratch.sh [seed-dir-name ...]   (default: every seed)
# Runs the quick check of each seed's property (plus the checks already recorded in its meta.json) against a scratch
# copy of /repo with the seed's patch applied, using a scratch copy of /verif, so that /repo and /verif stay free.
# Results: /tmp/mt/results.tsv (seed, check, rc, first violation line); merged into the meta files by tools/seed_merge.py.
set -u
MT=${MT:-/tmp/mt}
rm -rf $MT/verif; mkdir -p $MT
git -C /repo worktree remove --force $MT/repo 2>/dev/null; rm -rf $MT/repo
git -C /repo worktree add --detach $MT/repo HEAD >/dev/null 2>&1 || exit 2
rsync -a --exclude target --exclude corpus --exclude artifacts /verif/ $MT/verif/
sed -i "s#path = \"/repo\"#path = \"$MT/repo\"#" $MT/verif/harness/Cargo.toml $MT/verif/fuzz/Cargo.toml $MT/verif/harness_static/Cargo.toml
: > $MT/results.tsv
seeds="$@"; [ -z "$seeds" ] && seeds=$(ls /verif/seeded)
for s in $seeds; do
  d=/verif/seeded/$s
  [ -f $d/patch.diff ] || continue
  own=${s%%-*}
  ids=$(python3 -c "import json,sys,os; m=json.load(open('$d/meta.json')); print(' '.join(sorted(set(os.environ.get('EXTRA','').split()+['$own']+[k for k,v in m.get('checks_run',{}).items() if v.get('caught')]))))")
  if ! git -C $MT/repo apply $d/patch.diff 2>/dev/null; then echo -e "$s\t-\t-\tpatch does not apply" >> $MT/results.tsv; continue; fi
  for id in $ids; do
    out=$(cd $MT/verif && VERIF_SEED=1 timeout 1500 ./check $id quick 2>&1); rc=$?
    first=$(echo "$out" | grep -a -E '^violation|^regression' | head -1 | tr '\t\n' '  ' | cut -c1-300)
    echo -e "$s\t$id\t$rc\t$first" >> $MT/results.tsv
    rm -f $MT/verif/replays/*/found-*.json
  done
  git -C $MT/repo checkout -- .
done
git -C /repo worktree remove --force $MT/repo
echo DONE >> $MT/results.tsv
