#!/usr/bin/env python3
"""third-wave prompt: like agent_prompt2.py, worktree suffix c, output directories m7..m9"""
import json, sys, glob, subprocess
pid = sys.argv[1]; n = sys.argv[2] if len(sys.argv) > 2 else "3"
base = subprocess.run(['python3', '/verif/tools/agent_prompt.py', pid, n], capture_output=True, text=True).stdout
base = base.replace('/tmp/wt/%s' % pid, '/tmp/wt/%sc' % pid)
have = []
for m in sorted(glob.glob('/verif/seeded/%s-m*/meta.json' % pid)):
    have.append('  - ' + json.load(open(m)).get('summary', '')[:300])
extra = "\n\nOther people have already produced the following seeded changes for this property; yours must use DIFFERENT mechanisms and code sites (do not repeat or trivially vary these):\n" + "\n".join(have) + "\n\nLook in less obvious places: interactions between two modules (parser flags vs analysis vs compiler vs VM), rarely used syntax (named / relative references, \\h \\e \\x{..} escapes, nested classes and intersections, free-spacing mode, comments, possessive and counted quantifiers with unusual bounds, flags toggled in the middle of a group), boundary values of counters and sizes (group numbers >= 10, repeat counts at the edges, slot indices), long texts or many iterations, state that is restored on one path but not another (atomic groups, look-arounds inside loops, conditionals), error paths and what the API does after an error, builder options in combination, public API wrappers that duplicate logic. A change whose effect depends on TWO things coinciding (a pattern feature AND a text shape, or an option AND an API entry point) is ideal. Number your output directories m7, m8, m9.\n"
print(base.replace("Report back briefly", extra + "Report back briefly").replace("(1..%s)" % n, "(7..9)"))
