#!/usr/bin/env python3
"""fourth-wave prompt: worktree suffix d, output directories numbered after the seeds that already exist"""
import json, sys, glob, subprocess, re
pid = sys.argv[1]
have = []; nums = []
for m in sorted(glob.glob('/verif/seeded/%s-m*/meta.json' % pid)):
    have.append('  - ' + json.load(open(m)).get('summary', '')[:240])
    nums.append(int(re.search(r'-m(\d+)/', m).group(1)))
a = max(nums) + 1
base = subprocess.run(['python3', '/verif/tools/agent_prompt.py', pid, '3'], capture_output=True, text=True).stdout
base = base.replace('/tmp/wt/%s' % pid, '/tmp/wt/%sd' % pid)
extra = "\n\nOther people have already produced the following seeded changes for this property; yours must use DIFFERENT mechanisms and code sites (do not repeat or trivially vary these):\n" + "\n".join(have) + f"""

The obvious sites are taken. Read the sources for the paths that the existing changes do NOT touch, for example: code that only runs for a particular combination (an option AND an API entry point, a flag AND a construct, a construct nested inside another construct of the same kind), arithmetic on positions / counters / group numbers at boundary values, the order in which two pieces of state are updated or restored, early-return and error paths, differences between the wholly delegated path and the backtracking path of the same public function, Clone / Default / Debug / Display / FromStr / trait impls that the property's wording covers, and behaviour on the second and later calls of an iterator or of a reused object. A change whose effect depends on TWO things coinciding is ideal; so is a change spread over two sites that each look harmless. Number your output directories m{a}, m{a+1}, m{a+2}.
"""
print(base.replace("Report back briefly", extra + "Report back briefly").replace("(1..3)", f"({a}..{a+2})"))
