#!/usr/bin/env python3
"""Regenerate /verif/MANIFEST.json from the table below (keeps it valid and current)."""
import json, subprocess
ids = [json.loads(l)['id'] for l in open('/verif/properties.jsonl')]
hook_commits = subprocess.run(['git', '-C', '/repo', 'log', '--format=%h %s', '--grep=^verif-hooks'], capture_output=True, text=True).stdout.strip().splitlines()
T = {}
def add(pid, technique, text, note, ref):
    T[pid] = dict(technique=technique, text=text, note=note, ref=ref)

REF = "trusted: the harness reference matcher (harness/src/refm.rs, independent of the crate), rustc, the proptest runner; classes listed as known findings are excluded from exploration and probed by fixed witnesses"
add('C01', "property-based testing and fuzzing: differential against a reference backtracking matcher (exhaustive small-scope enumeration, context x filler products, flag-group / wide-pattern / long-text stages, proptest-driven random ASTs with shrinking; thorough: libFuzzer campaign fuzz_diff with the same oracle in the target)",
    "exploration: every generated (pattern, text, offset) is searched by the crate and by an independent reference matcher and the spans must be equal; exhaustive up to a node bound, seeded random beyond; no proof of absence", REF, "DESIGN.md section 5 C01")
add('C02', "property-based testing and fuzzing: differential against a reference backtracking matcher, all capture groups compared (same generators as C01; thorough: libFuzzer campaigns fuzz_diff and fuzz_prop/C02-flags)",
    "exploration: as C01 but every capture group of every match is compared with the reference winning path", REF, "DESIGN.md section 5 C02")
add('C15', "property-based testing and fuzzing: differential against a reference matcher implementing the documented conditional semantics (thorough: libFuzzer campaign fuzz_prop/C15)",
    "exploration: exhaustive small trees with both conditional forms at every position, conditional contexts x fillers, random ASTs; captures compared with the reference", REF, "DESIGN.md section 5 C15")

NOREF = "trusted: rustc, the proptest runner, the harness's own span/model code; no external reference is needed for this oracle"
add('C05', "property-based testing / fuzzing: validity predicate under catch_unwind over an unrestricted pattern grammar (exhaustive small scope, products, proptest random ASTs)",
    "exploration: every public search entry point is driven on every generated (pattern, text, offset); any panic, invalid span or non-terminating iterator is a counterexample", NOREF, "DESIGN.md section 5 C05")
add('C08', "property-based testing and fuzzing: model-based check of the find_iter history against a reference iteration model + sequence invariants + error histories (thorough: libFuzzer campaign fuzz_prop/C08)",
    "exploration: whole yielded sequences compared with the reference iteration model; invariants checked independently of the model; Err histories via tiny backtrack limits", REF, "DESIGN.md section 5 C08")
add('C09', "property-based testing and fuzzing: metamorphic comparison of the search entry points with each other, also under a tiny backtrack limit (thorough: libFuzzer campaign fuzz_prop/C09)",
    "exploration: is_match / find / find_from_pos / captures / captures_from_pos / find_iter / captures_iter compared pairwise on every generated case", NOREF, "DESIGN.md section 5 C09")
add('C10', "property-based testing and fuzzing: model-based check of split / splitn against the find_iter matches (partition + rebuild + limit model; thorough: libFuzzer campaign fuzz_prop/C10)",
    "exploration: pieces, rebuild round-trip, splitn limit model and fusedness on every generated (pattern, text)", NOREF, "DESIGN.md section 5 C10")
add('C11', "property-based testing and fuzzing: model-based check of try_replacen / replace / replace_all against captures_iter + independent template scanner (thorough: libFuzzer campaign fuzz_prop/C11)",
    "exploration: 12 replacers x limits 0..3 on every generated (pattern, text); fast path vs slow path agreement; Err instead of panic under a tiny backtrack limit", NOREF, "DESIGN.md section 5 C11")
add('C16', "property-based testing: metadata oracle computed from the generator's AST (group count, names, Index impls, iterator protocol of Captures::iter, wrapping indices), two engine forms per pattern that must report the same spans, group spans of common-syntax patterns against the regex crate",
    "exploration: captures_len / capture_names / Captures::{len,iter,get,name} against the AST for delegated and VM-compiled forms", NOREF, "DESIGN.md section 5 C16")
add('C03', "property-based testing and fuzzing: metamorphic relation (insert the no-op (?=) at every site; results must not change), exhaustive single sites + random multi-site (thorough: libFuzzer campaign fuzz_prop/C03)",
    "exploration: captures_from_pos of P and of every single-site injection P' compared on every text and offset; the injection provably changes the VM/automata split (measured per case)", NOREF, "DESIGN.md section 5 C03")
add('C04', "property-based testing and fuzzing: differential against the regex crate over the whole public API on the shared syntax (thorough: libFuzzer campaign fuzz_prop/C04)",
    "exploration: ~60 API calls per (pattern, text) compared with regex::Regex; exhaustive small trees, flag variants, named groups, random ASTs", "trusted: the regex crate as oracle; one-sided compile failures are counted, not judged", "DESIGN.md section 5 C04")
add('C06', "fuzzing / property-based testing: exhaustive token sequences + proptest random token sequences and mutations of valid patterns, run in worker processes under a counting allocator and RLIMIT_AS; nesting and growth families (one unit repeated n and 4n times: no crash, memory about linear)",
    "exploration: every generated string is compiled through Regex::new, Expr::parse_tree and RegexBuilder; panic, overflow, crash, oversized allocation or an out-of-range error position is a counterexample", "trusted: the counting allocator and the 256 MiB + 4 MiB*len peak cap as the stand-in for 'memory proportional to the pattern'; wall clock is only a watchdog", "DESIGN.md section 5 C06")
add('C12', "property-based testing and fuzzing: exhaustive templates over a syntax alphabet + proptest fragment sequences against an independent template scanner; escape round-trip; one-directional check() relation; short-writing writers (thorough: libFuzzer campaign fuzz_prop/C12 on raw template bytes)",
    "exploration: every template x 8 capture sets x 2 expanders through all five expansion entry points", "trusted: the template model written from the doc comments (harness/src/model.rs)", "DESIGN.md section 5 C12")
add('C14', "property-based testing and fuzzing: metamorphic (builder option vs (?i) prefix, neutral options vs none, option combinations) + differential on delegate_size_limit and on the default size limit against regex::RegexBuilder applied to the delegated pieces (thorough: libFuzzer campaign fuzz_prop/C14)",
    "exploration: option combinations on every generated (pattern, text, offset); size-limit accept/reject compared per delegated piece", "trusted: regex::RegexBuilder::size_limit forwards to the same NFA size limit", "DESIGN.md section 5 C14")
add('C17', "property-based testing and fuzzing: exhaustive short strings over all meta-characters + proptest strings, escaped and embedded in 15 host patterns (three built through RegexBuilder::case_insensitive), pairs of escaped strings as look-behind / look-ahead alternatives, against str methods (thorough: libFuzzer campaign fuzz_prop/C17)",
    "exploration: find span == str::find span on texts derived from each string (embedded, doubled, near misses, case-swapped) for 15 hosts and 3 pair hosts; borrow and shape of escape", "trusted: str::find", "DESIGN.md section 5 C17")
add('C20', "property-based testing and fuzzing: stateful model-based test of the VM backtracking state (exhaustive short histories + proptest long histories with bursts, three slot layouts) against a whole-state-copy model; program-level companion vs the reference matcher (thorough: libFuzzer campaign fuzz_prop/C20 on byte-decoded histories)",
    "exploration: every step of every generated history compared (slots, branch count, auxiliary stack, pop results), final unwind included", "trusted: the hook wrapper forwards unchanged to the private State; the copy model is ~40 lines", "DESIGN.md section 5 C20")
add('C07', "property-based testing and fuzzing: per-case threshold oracle from hook statistics (backtracks of the unlimited run) over a set of backtrack limits and entry points; reference-step bound for spurious limit errors (incl. loops around committing constructs on long texts); instruction/stack bounds (thorough: libFuzzer campaign fuzz_prop/C07)",
    "exploration: every VM-compiled generated (pattern, text, offset) under 8 (+3 exact) limits; sharp threshold L < B <=> error", REF + "; the run statistics hook", "DESIGN.md section 5 C07")
add('C13', "property-based testing: instrumented reference matcher records the lengths every sub-expression really matches and compares them with the analysis facts read through the hook; differential on look-behind products over multi-byte texts; independent syntactic fixed-length oracle for wrongly rejected look-behinds",
    "exploration: facts of every node of every generated pattern (also of patterns the compiler then rejects) against observed match lengths; look-behind behaviour against the reference", REF + "; conversion Expr -> reference AST (shape-checked per pattern)", "DESIGN.md section 5 C13")
add('C18', "stress testing with a differential oracle (single-threaded results): proptest-generated call sequences over a corpus and over freshly generated VM patterns, barrier start, hot-spot and iterator-state hammer rounds, stuck-round (deadlock) detection, in-flight overlap measurement; compile-time Send/Sync/Clone assertion crate; thorough: ThreadSanitizer build",
    "exploration (weakest check): the schedule is the OS's; a violation is only reported if provoked; results of every concurrent call compared with the single-threaded result", "trusted: nothing beyond std; no schedule control for regex-automata's pool with the installed tooling", "DESIGN.md section 5 C18")
add('C19', "property-based testing: metamorphic respelling (18 transformers over the token stream, 24 bracketed-class item pairs) with tree equality via Expr::parse_tree and behavioural equality; printer/parser/conversion round trip",
    "exploration: every generated pattern x 18 respellings (each only on the patterns it can change); trees equal (modulo the case flag of caseless literals) and captures equal on every text and offset", NOREF, "DESIGN.md section 5 C19")

import os
TABLE = '/verif/tools/manifest_table.json'
if os.path.exists(TABLE):
    for pid, e in json.load(open(TABLE)).items():
        T[pid] = e
checks = []
for pid in ids:
    if pid not in T: continue
    e = T[pid]
    checks.append({
        "property_id": pid,
        "quick_cmd": "./check %s quick" % pid,
        "thorough_cmd": "./check %s thorough" % pid,
        "evidence_file": "/verif/evidence/%s.json" % pid,
        "replay_cmd_template": "./check %s --replay {path}" % pid,
        "engine": "frv",
        "level_claimed": {"category": "exploration", "text": e['text'], "design_ref": e['ref']},
        "level_note": e['note'],
        "technique": e['technique'],
    })
na = [{"property_id": i, "reason": "check not built yet in this round (see DESIGN.md for the planned generated check)"} for i in ids if i not in T]
m = {
    "version": 1,
    "setup_cmd": "cd harness && CARGO_NET_OFFLINE=true cargo build --release --offline",
    "hooks": {
        "guard": "cargo feature `verif-hooks` of fancy-regex (off by default)",
        "enable": "harness/Cargo.toml depends on fancy-regex = { path = \"/repo\", features = [\"verif-hooks\"] }; ./check rebuilds it from /repo's working tree",
        "baseline_off_cmd": "cd /repo && cargo test --workspace --no-fail-fast --offline",
        "source_commits": [c.split()[0] for c in hook_commits],
        "add_only": True,
    },
    "engines": [{"name": "frv", "path": "/verif/harness", "serves_properties": [c['property_id'] for c in checks],
                 "kind_free_text": "Rust harness: generators (exhaustive enumeration, context x filler, proptest byte vectors -> AST), reference matcher, per-property oracles, shrinker, evidence writer"}],
    "checks": checks,
    "not_applicable": na,
    "notes": "All checks: exit 0 = held, exit 1 + VIOLATION line = counterexample (shrunk, saved under replays/<ID>/), exit 2 = infrastructure trouble. Known findings: known_findings.json.",
}
json.dump(m, open('/verif/MANIFEST.json', 'w'), indent=1)
print("checks:", [c['property_id'] for c in checks], "not_applicable:", [x['property_id'] for x in na])
