#!/bin/bash
# regenerate every evidence file from the quick checks on the unchanged tree (VERIF_SEED=1) and validate them
cd /verif || exit 2
if [ -n "$(git -C /repo status --porcelain --untracked-files=no)" ]; then echo "/repo not clean"; exit 2; fi
fail=0
for p in C01 C02 C03 C04 C05 C06 C07 C08 C09 C10 C11 C12 C13 C14 C15 C16 C17 C18 C19 C20; do
  out=$(VERIF_SEED=1 ./check $p quick 2>&1); rc=$?
  echo "$p rc=$rc $(echo "$out" | grep -E "^$p quick" | sed 's/.*wall=/wall=/')"
  [ $rc -ne 0 ] && { fail=1; echo "$out" | grep -E "VIOLATION|violation|health|error" | head -3 | cut -c1-300; }
done
python3-vt - <<'PY'
import json,jsonschema,glob
s=json.load(open('/root/.vp/EVIDENCE.schema.json'))
for f in sorted(glob.glob('/verif/evidence/*.json')):
    e=json.load(open(f)); jsonschema.validate(e,s)
    assert e['tier']=='quick' and e['seed']==1, f
jsonschema.validate(json.load(open('/verif/MANIFEST.json')),json.load(open('/root/.vp/MANIFEST.schema.json')))
print("evidence and manifest valid")
PY
exit $fail
