#!/usr/bin/env python3
"""second-wave prompt: like agent_prompt.py but lists the seeded changes that already exist for the property"""
import json, sys, glob, subprocess
pid = sys.argv[1]; n = sys.argv[2] if len(sys.argv) > 2 else "3"
base = subprocess.run(['python3', '/verif/tools/agent_prompt.py', pid, n], capture_output=True, text=True).stdout
base = base.replace('/tmp/wt/%s' % pid, '/tmp/wt/%sb' % pid)
have = []
for m in sorted(glob.glob('/verif/seeded/%s-m*/meta.json' % pid)):
    have.append('  - ' + json.load(open(m)).get('summary', '')[:260])
extra = "\n\nOther people have already produced the following seeded changes for this property; yours must use DIFFERENT mechanisms and code sites (do not repeat or trivially vary these):\n" + "\n".join(have) + "\n\nLook in less obvious places: interactions between two modules (parser flags vs analysis vs compiler vs VM), rarely used syntax, boundary values of counters and sizes, state that is restored on one path but not another, public API wrappers that duplicate logic. Number your output directories m4, m5, m6 (not m1..m3).\n"
print(base.replace("Report back briefly", extra + "Report back briefly").replace("(1..%s)" % n, "(4..6)").replace("m<i>", "m<i>"))
