#!/bin/bash
# usage: seed_import4.sh <PID> <mN>...   fourth wave: confirm each seed in the sub-agent's scratch worktree /tmp/wt/<PID>d, store it
# under /verif/seeded/<PID>-<mN>/ (meta with the confirmation), then run the property's quick check against scratch copies
# (tools/seed_all_scratch.sh with MT=/tmp/mt2) and merge the outcome into the meta files
pid=$1; shift
wt=/tmp/wt/${pid}${SUF:-d}
names=""
for m in "$@"; do
  src=$wt/seeded_out/$m; dst=/verif/seeded/$pid-$m
  [ -f $src/patch.diff ] || { echo "no $src"; continue; }
  mkdir -p $dst; cp $src/patch.diff $src/demo.rs $dst/
  conf=$(/verif/tools/confirm_seed.sh $wt $src 2>&1 | tail -1)
  echo "$pid-$m confirm: $conf"
  python3 - "$pid" "$conf" "$src/meta.json" "$dst/meta.json" <<'PY'
import json,sys
pid,conf,src,dst=sys.argv[1:5]
meta=json.load(open(src)); meta['breaks_property']=pid; meta['confirmed_in_scratch_worktree']=conf; meta.setdefault('checks_run',{})
meta['how_run']="tools/confirm_seed.sh (scratch worktree: suite with patch, demo with/without patch); tools/seed_all_scratch.sh (patch applied to a scratch worktree of /repo, quick check from a scratch copy of /verif)"
json.dump(meta,open(dst,'w'),indent=1)
PY
  names="$names $pid-$m"
done
MT=/tmp/mt2 /verif/tools/seed_all_scratch.sh $names
MT=/tmp/mt2 python3 /verif/tools/seed_merge.py
cut -c1-260 /tmp/mt2/results.tsv
