#!/bin/bash
# usage: seed_retest.sh <seed-dir-name> <check-id>...   re-run the given quick checks with the stored patch applied to /repo and record the outcome in meta.json
d=/verif/seeded/$1; shift
res=$(/verif/tools/mutest.sh $d/patch.diff "$@" 2>&1)
echo "$res" | cut -c1-420
python3 - "$res" "$d/meta.json" <<'PY'
import json,sys,re
res,dst=sys.argv[1:3]
meta=json.load(open(dst))
runs=meta.get('checks_run',{})
for line in res.splitlines():
    mm=re.match(r'== (C\d+) rc=(\d+) ?(.*)',line)
    if mm: runs[mm.group(1)]={'exit':int(mm.group(2)),'caught':mm.group(2)=='1','first_violation':mm.group(3)[:300]}
meta['checks_run']=runs
json.dump(meta,open(dst,'w'),indent=1)
PY
