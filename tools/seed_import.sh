#!/bin/bash
# usage: seed_import.sh <PID> <mN> <check-id>...   confirm the seed in its scratch worktree, run the given quick checks on /repo with the patch applied, store under /verif/seeded/<PID>-<mN>/
pid=$1; m=$2; shift 2
wt=${WT:-/tmp/wt/$pid}
src=$wt/seeded_out/$m
dst=/verif/seeded/$pid-$m
mkdir -p $dst
cp $src/patch.diff $src/demo.rs $dst/
conf=$(/verif/tools/confirm_seed.sh $wt $src 2>&1 | tail -1)
echo "confirm: $conf"
res=$(/verif/tools/mutest.sh $dst/patch.diff "$@" 2>&1)
echo "$res" | cut -c1-420
python3 - "$pid" "$m" "$conf" "$res" "$src/meta.json" "$dst/meta.json" <<'PY'
import json,sys,re
pid,m,conf,res,src,dst=sys.argv[1:7]
meta=json.load(open(src))
meta['breaks_property']=pid
meta['confirmed_in_scratch_worktree']=conf
runs={}
for line in res.splitlines():
    mm=re.match(r'== (C\d+) rc=(\d+) ?(.*)',line)
    if mm: runs[mm.group(1)]={'exit':int(mm.group(2)),'caught':mm.group(2)=='1','first_violation':mm.group(3)[:300]}
old={}
try: old=json.load(open(dst)).get('checks_run',{})
except Exception: pass
old.update(runs)
meta['checks_run']=old
meta['how_run']="tools/confirm_seed.sh (scratch worktree: suite with patch, demo with/without patch); tools/mutest.sh (git -C /repo apply patch.diff; ./check <ID> quick; git -C /repo checkout -- .)"
json.dump(meta,open(dst,'w'),indent=1)
PY
