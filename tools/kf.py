#!/usr/bin/env python3
"""Maintain /verif/known_findings.json (never used at check run time).
  kf.py add-witness <FID> <replay.json>         append the case of a replay file as a witness
  kf.py new <FID> <status> <signature|-> <props,comma> <what>
  kf.py fixed <FID> <commit>                      mark as fixed, add record lines
"""
import json, sys
P = '/verif/known_findings.json'
d = json.load(open(P))
def find(fid):
    for e in d['findings']:
        if e['id'] == fid: return e
    raise SystemExit('no such finding ' + fid)
cmd = sys.argv[1]
if cmd == 'new':
    fid, status, sig, props, what = sys.argv[2:7]
    d['findings'].append({'id': fid, 'status': status, 'signature': None if sig == '-' else sig,
                          'properties': props.split(','), 'what': what, 'records': [], 'witnesses': []})
elif cmd == 'add-witness':
    e = find(sys.argv[2]); r = json.load(open(sys.argv[3]))
    w = {'property': r['property'], 'kind': r['kind'], 'case': r['case'], 'expected': r['expected'], 'actual_when_found': r['actual']}
    if not any(x['property'] == w['property'] and x['case'] == w['case'] for x in e['witnesses']):
        e['witnesses'].append(w)
    if r['property'] not in e['properties']: e['properties'].append(r['property'])
elif cmd == 'fixed':
    e = find(sys.argv[2]); e['status'] = 'fixed'; e['commit'] = sys.argv[3]
for e in d['findings']:
    if e['status'] == 'fixed':
        e['records'] = ['fixed: property=%s %s %s' % (p, e.get('commit', '?'), e['what']) for p in e['properties']]
    else:
        e['records'] = ['KNOWN-FINDING: property=%s %s' % (p, e['what']) for p in e['properties']]
json.dump(d, open(P, 'w'), indent=1, ensure_ascii=False)
