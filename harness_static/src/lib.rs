//! Compile-time part of C18: exactly what the property states - Regex is Send + Sync + Clone.
//! If this crate fails to build while /repo itself builds, that is the violation.
fn assert_send_sync_clone<T: Send + Sync + Clone>() {}

pub fn check() {
    assert_send_sync_clone::<fancy_regex::Regex>();
}
