//! Generators: exhaustive enumeration by node count, context x filler products, byte-decoded random
//! patterns (driven by proptest byte vectors or libFuzzer input), and text sets.
use crate::ast::{Node, Node::*, A, Q};
use std::collections::{HashMap, HashSet};

pub type Unary = fn(Node) -> Option<Node>;

pub struct Cfg {
    pub leaves: Vec<Node>,
    pub unary: Vec<Unary>,
    pub ternary_concat: bool,
    pub cond: bool,
}

fn rep(c: Node, lo: u32, hi: Option<u32>, q: Q) -> Option<Node> {
    if c.repeatable() {
        Some(Repeat(Box::new(c), lo, hi, q))
    } else {
        None
    }
}
fn bx(n: Node) -> Box<Node> {
    Box::new(n)
}

pub fn core_unary() -> Vec<Unary> {
    vec![
        |c| Some(Group(bx(c))),
        |c| Some(Atomic(bx(c))),
        |c| Some(Look(bx(c), false, false)),
        |c| Some(Look(bx(c), false, true)),
        |c| Some(Look(bx(c), true, false)),
        |c| Some(Look(bx(c), true, true)),
        |c| rep(c, 0, Some(1), Q::Greedy),
        |c| rep(c, 0, None, Q::Greedy),
        |c| rep(c, 1, None, Q::Greedy),
        |c| rep(c, 0, Some(1), Q::Lazy),
        |c| rep(c, 0, None, Q::Lazy),
        |c| rep(c, 1, None, Q::Lazy),
        |c| rep(c, 2, Some(2), Q::Greedy),
        |c| rep(c, 1, Some(2), Q::Greedy),
        |c| rep(c, 1, Some(2), Q::Lazy),
        |c| rep(c, 0, None, Q::Poss),
        |c| rep(c, 0, Some(1), Q::Poss),
    ]
}

/// C01 core set: 10 leaves, 17 unary operators
pub fn core_cfg() -> Cfg {
    Cfg {
        leaves: vec![
            Lit('a'),
            Lit('b'),
            Any,
            Empty,
            Assert(A::StartText),
            Assert(A::EndText),
            Assert(A::WordB),
            KeepOut,
            Backref(1),
            Class(false, vec![('a', 'b')]),
        ],
        unary: core_unary(),
        ternary_concat: true,
        cond: false,
    }
}

/// multi-byte / unicode / line-anchor leaf set (used by C01 second pass, C13)
pub fn uni_cfg() -> Cfg {
    Cfg {
        leaves: vec![
            Lit('a'),
            Lit('é'),
            Any,
            AnyNl,
            Class(true, vec![('a', 'a')]),
            Perl('w'),
            Perl('S'),
            Assert(A::StartLine),
            Assert(A::EndLine),
            Assert(A::EndZ),
            Assert(A::NotWordB),
            Assert(A::WordStart),
            Assert(A::WordEnd),
            Backref(1),
            Lit('\n'),
        ],
        unary: core_unary(),
        ternary_concat: true,
        cond: false,
    }
}

/// scoped flag groups around / inside fancy constructs, mixed-case literals (C01 C02 C03 flag stages)
pub fn flag_cfg() -> Cfg {
    Cfg {
        leaves: vec![Lit('a'), Lit('B'), Class(false, vec![('a', 'b')]), Any, Assert(A::StartText), Assert(A::EndText), Backref(1), Lit('\n'), Lit('é')],
        unary: vec![
            |c| Some(Group(bx(c))),
            |c| Some(Atomic(bx(c))),
            |c| Some(Look(bx(c), false, false)),
            |c| Some(Look(bx(c), false, true)),
            |c| Some(Look(bx(c), true, false)),
            |c| Some(Look(bx(c), true, true)),
            |c| rep(c, 0, Some(1), Q::Greedy),
            |c| rep(c, 0, None, Q::Greedy),
            |c| rep(c, 1, None, Q::Lazy),
            |c| rep(c, 1, Some(2), Q::Greedy),
            |c| rep(c, 0, None, Q::Poss),
            |c| rep(c, 0, Some(1), Q::Poss),
            |c| Some(Flags("i".into(), "".into(), bx(c))),
            |c| Some(Flags("".into(), "i".into(), bx(c))),
            |c| Some(Flags("s".into(), "".into(), bx(c))),
            |c| Some(Flags("m".into(), "".into(), bx(c))),
            |c| Some(Flags("U".into(), "".into(), bx(c))),
            |c| Some(Flags("is".into(), "m".into(), bx(c))),
        ],
        ternary_concat: true,
        cond: false,
    }
}

pub const FLAG_SIGMA: [char; 7] = ['a', 'A', 'b', 'B', '\n', 'é', 'É'];

/// literals that are regex meta-characters (quoting when a piece is re-serialised for the automata engine)
pub fn meta_cfg() -> Cfg {
    Cfg {
        leaves: vec![Lit('.'), Lit('$'), Lit('{'), Lit('#'), Lit('|'), Lit('a'), Any, Assert(A::WordB), Backref(1), Lit('\\'), Lit(')'), Lit('[')],
        unary: vec![
            |c| Some(Group(bx(c))),
            |c| Some(Atomic(bx(c))),
            |c| Some(Look(bx(c), false, false)),
            |c| Some(Look(bx(c), true, true)),
            |c| rep(c, 0, Some(1), Q::Greedy),
            |c| rep(c, 1, None, Q::Greedy),
            |c| rep(c, 2, Some(2), Q::Lazy),
        ],
        ternary_concat: true,
        cond: false,
    }
}

pub const META_SIGMA: [char; 6] = ['.', '$', '{', '#', 'a', '|'];

/// conditional leaf set (C15)
pub fn cond_cfg() -> Cfg {
    let mut unary = core_unary();
    unary.truncate(9);
    Cfg {
        leaves: vec![
            Lit('a'),
            Lit('b'),
            Empty,
            Assert(A::StartText),
            Assert(A::EndText),
            Assert(A::WordB),
            Backref(1),
            GroupExists(1),
        ],
        unary,
        ternary_concat: true,
        cond: true,
    }
}

/// unrestricted set (C05, C09): adds \G and self-reference friendly shapes
pub fn wild_cfg() -> Cfg {
    Cfg {
        leaves: vec![
            Lit('a'),
            Lit('é'),
            Any,
            Empty,
            Assert(A::WordB),
            Assert(A::EndText),
            KeepOut,
            ContG,
            Backref(1),
            GroupExists(1),
        ],
        unary: core_unary(),
        ternary_concat: false,
        cond: true,
    }
}

/// common syntax with the regex crate (C04)
pub fn common_cfg() -> Cfg {
    fn r(c: Node, lo: u32, hi: Option<u32>, q: Q) -> Option<Node> {
        rep(c, lo, hi, q)
    }
    Cfg {
        leaves: vec![
            Lit('a'),
            Lit('b'),
            Any,
            AnyNl,
            Class(false, vec![('a', 'b')]),
            Class(true, vec![('a', 'a')]),
            Perl('w'),
            Perl('W'),
            Empty,
            Assert(A::StartText),
            Assert(A::EndText),
            Assert(A::WordB),
            Assert(A::NotWordB),
            Assert(A::StartLine),
            Assert(A::EndLine),
            Assert(A::WordStart),
            Assert(A::WordEnd),
            Lit('é'),
        ],
        unary: vec![
            |c| Some(Group(bx(c))),
            |c| r(c, 0, Some(1), Q::Greedy),
            |c| r(c, 0, None, Q::Greedy),
            |c| r(c, 1, None, Q::Greedy),
            |c| r(c, 0, Some(1), Q::Lazy),
            |c| r(c, 0, None, Q::Lazy),
            |c| r(c, 1, None, Q::Lazy),
            |c| r(c, 2, Some(2), Q::Greedy),
            |c| r(c, 1, Some(2), Q::Greedy),
            |c| r(c, 0, Some(2), Q::Lazy),
            |c| r(c, 2, None, Q::Greedy),
        ],
        ternary_concat: true,
        cond: false,
    }
}

/// All trees with exactly n nodes.
pub fn trees(cfg: &Cfg, n: usize, memo: &mut HashMap<usize, Vec<Node>>) -> Vec<Node> {
    if let Some(v) = memo.get(&n) {
        return v.clone();
    }
    let mut out = Vec::new();
    if n == 1 {
        out = cfg.leaves.clone();
    } else {
        let sub = trees(cfg, n - 1, memo);
        for u in &cfg.unary {
            for c in &sub {
                if let Some(t) = u(c.clone()) {
                    out.push(t);
                }
            }
        }
        for i in 1..n - 1 {
            let j = n - 1 - i;
            if j < 1 {
                continue;
            }
            let l = trees(cfg, i, memo);
            let r = trees(cfg, j, memo);
            for a in &l {
                for b in &r {
                    if !matches!(a, Concat(_)) && !matches!(b, Concat(_)) && *a != Empty && *b != Empty {
                        out.push(Concat(vec![a.clone(), b.clone()]));
                    }
                    if !matches!(a, Alt(_)) && !matches!(b, Alt(_)) {
                        out.push(Alt(vec![a.clone(), b.clone()]));
                    }
                    if cfg.cond {
                        out.push(CondGroup(1, bx(a.clone()), bx(b.clone())));
                    }
                }
            }
        }
        if n >= 4 && (cfg.cond || cfg.ternary_concat) {
            for i in 1..n - 2 {
                for j in 1..n - 1 - i {
                    let k = n - 1 - i - j;
                    if k < 1 {
                        continue;
                    }
                    let (x, y, z) = (trees(cfg, i, memo), trees(cfg, j, memo), trees(cfg, k, memo));
                    for a in &x {
                        for b in &y {
                            for c in &z {
                                if cfg.cond && *a != Empty {
                                    out.push(CondExpr(bx(a.clone()), bx(b.clone()), bx(c.clone())));
                                }
                                if cfg.ternary_concat && ![a, b, c].iter().any(|t| matches!(t, Concat(_)) || **t == Empty) {
                                    out.push(Concat(vec![a.clone(), b.clone(), c.clone()]));
                                }
                                // three-way alternations (chained splits in the compiler); leaves only, to bound the growth
                                if cfg.ternary_concat && i == 1 && j == 1 && k == 1 && a != b && b != c {
                                    out.push(Alt(vec![a.clone(), b.clone(), c.clone()]));
                                }
                            }
                        }
                    }
                }
            }
        }
    }
    memo.insert(n, out.clone());
    out
}

/// All trees with at most `max` nodes, smallest first.
pub fn trees_upto(cfg: &Cfg, max: usize) -> Vec<Node> {
    let mut memo = HashMap::new();
    let mut out = Vec::new();
    for n in 1..=max {
        out.extend(trees(cfg, n, &mut memo));
    }
    out
}

/// Drop patterns that print identically (keeps first = smallest).
pub fn dedup_by_print(v: Vec<Node>) -> Vec<Node> {
    let mut seen = HashSet::new();
    v.into_iter().filter(|n| seen.insert(n.to_pattern())).collect()
}

// ---------------------------------------------------------------------------------------------
// context x filler products

pub struct Ctx {
    pub name: &'static str,
    /// groups opened by the context before the hole
    pub pre: usize,
    /// (hole content, number of groups preceding this context) -> node
    pub build: fn(Node, usize) -> Node,
}

fn cat(v: Vec<Node>) -> Node {
    let mut out = Vec::new();
    for n in v {
        match n {
            Empty => {}
            Concat(inner) => out.extend(inner),
            n => out.push(n),
        }
    }
    match out.len() {
        0 => Empty,
        1 => out.pop().unwrap(),
        _ => Concat(out),
    }
}

pub fn contexts() -> Vec<Ctx> {
    fn g(n: Node) -> Node {
        Group(bx(n))
    }
    vec![
        Ctx { name: "□", pre: 0, build: |h, _| h },
        Ctx { name: "□c", pre: 0, build: |h, _| cat(vec![h, Lit('c')]) },
        Ctx { name: "a□", pre: 0, build: |h, _| cat(vec![Lit('a'), h]) },
        Ctx { name: "□b*", pre: 0, build: |h, _| cat(vec![h, Repeat(bx(Lit('b')), 0, None, Q::Greedy)]) },
        Ctx { name: "(□)\\1", pre: 1, build: |h, g0| cat(vec![g(h), Backref(g0 + 1)]) },
        Ctx { name: "(□)\\1c", pre: 1, build: |h, g0| cat(vec![g(h), Backref(g0 + 1), Lit('c')]) },
        Ctx { name: "(□)b\\1", pre: 1, build: |h, g0| cat(vec![g(h), Lit('b'), Backref(g0 + 1)]) },
        Ctx { name: "(?=□)", pre: 0, build: |h, _| Look(bx(h), false, false) },
        Ctx { name: "(?=(□))\\1c", pre: 1, build: |h, g0| cat(vec![Look(bx(g(h)), false, false), Backref(g0 + 1), Lit('c')]) },
        Ctx { name: "(?=□)a", pre: 0, build: |h, _| cat(vec![Look(bx(h), false, false), Lit('a')]) },
        Ctx { name: "(?!□)", pre: 0, build: |h, _| Look(bx(h), false, true) },
        Ctx { name: "(?!□)a", pre: 0, build: |h, _| cat(vec![Look(bx(h), false, true), Lit('a')]) },
        Ctx { name: "(?<=□)", pre: 0, build: |h, _| Look(bx(h), true, false) },
        Ctx { name: "a(?<=□)b", pre: 0, build: |h, _| cat(vec![Lit('a'), Look(bx(h), true, false), Lit('b')]) },
        Ctx { name: "(?<!□)", pre: 0, build: |h, _| Look(bx(h), true, true) },
        Ctx { name: "(?<!□)b", pre: 0, build: |h, _| cat(vec![Look(bx(h), true, true), Lit('b')]) },
        Ctx { name: "(?>□)", pre: 0, build: |h, _| Atomic(bx(h)) },
        Ctx { name: "(?>□)a", pre: 0, build: |h, _| cat(vec![Atomic(bx(h)), Lit('a')]) },
        Ctx { name: "(?>□)b", pre: 0, build: |h, _| cat(vec![Atomic(bx(h)), Lit('b')]) },
        Ctx { name: "(?:□)*b", pre: 0, build: |h, _| if h.repeatable() { cat(vec![Repeat(bx(h), 0, None, Q::Greedy), Lit('b')]) } else { h } },
        Ctx { name: "(?:□)+", pre: 0, build: |h, _| if h.repeatable() { Repeat(bx(h), 1, None, Q::Greedy) } else { h } },
        Ctx { name: "(?:□)*?a", pre: 0, build: |h, _| if h.repeatable() { cat(vec![Repeat(bx(h), 0, None, Q::Lazy), Lit('a')]) } else { h } },
        Ctx { name: "(?:□){2}", pre: 0, build: |h, _| if h.repeatable() { Repeat(bx(h), 2, Some(2), Q::Greedy) } else { h } },
        Ctx { name: "(?:□){1,2}b", pre: 0, build: |h, _| if h.repeatable() { cat(vec![Repeat(bx(h), 1, Some(2), Q::Greedy), Lit('b')]) } else { h } },
        Ctx { name: "(?:□){0,2}?b", pre: 0, build: |h, _| if h.repeatable() { cat(vec![Repeat(bx(h), 0, Some(2), Q::Lazy), Lit('b')]) } else { h } },
        Ctx { name: "(?:□)?+a", pre: 0, build: |h, _| if h.repeatable() { cat(vec![Repeat(bx(h), 0, Some(1), Q::Poss), Lit('a')]) } else { h } },
        Ctx { name: "(?:□)*+", pre: 0, build: |h, _| if h.repeatable() { Repeat(bx(h), 0, None, Q::Poss) } else { h } },
        Ctx { name: "((?:□)){2}", pre: 1, build: |h, _| Repeat(bx(g(h)), 2, Some(2), Q::Greedy) },
        Ctx { name: "(□|a)b", pre: 1, build: |h, _| cat(vec![g(Alt(vec![h, Lit('a')])), Lit('b')]) },
        Ctx { name: "(a|□)b", pre: 1, build: |h, _| cat(vec![g(Alt(vec![Lit('a'), h])), Lit('b')]) },
        Ctx { name: "□|b", pre: 0, build: |h, _| Alt(vec![h, Lit('b')]) },
        Ctx { name: "^□$", pre: 0, build: |h, _| cat(vec![Assert(A::StartText), h, Assert(A::EndText)]) },
        Ctx { name: "\\b□", pre: 0, build: |h, _| cat(vec![Assert(A::WordB), h]) },
        Ctx { name: "□\\K", pre: 0, build: |h, _| cat(vec![h, KeepOut]) },
        Ctx { name: "a\\K□", pre: 0, build: |h, _| cat(vec![Lit('a'), KeepOut, h]) },
        Ctx { name: "(a)?□", pre: 1, build: |h, _| cat(vec![Repeat(bx(g(Lit('a'))), 0, Some(1), Q::Greedy), h]) },
        // continuations that depend on the capture state the hole leaves behind (first group inside the hole)
        Ctx { name: "(?>□)(?!\\1)", pre: 0, build: |h, g0| cat(vec![Atomic(bx(h)), Look(bx(Backref(g0 + 1)), false, true)]) },
        Ctx { name: "(?>□)\\1", pre: 0, build: |h, g0| cat(vec![Atomic(bx(h)), Backref(g0 + 1)]) },
        Ctx { name: "(?:□)(?!\\1)", pre: 0, build: |h, g0| cat(vec![h, Look(bx(Backref(g0 + 1)), false, true)]) },
        Ctx { name: "(?=□)(?!\\1)a", pre: 0, build: |h, g0| cat(vec![Look(bx(h), false, false), Look(bx(Backref(g0 + 1)), false, true), Lit('a')]) },
        Ctx { name: "(?:□)+?(?!\\1)b", pre: 0, build: |h, g0| if h.repeatable() { cat(vec![Repeat(bx(h), 1, None, Q::Lazy), Look(bx(Backref(g0 + 1)), false, true), Lit('b')]) } else { h } },
        Ctx { name: ".*□", pre: 0, build: |h, _| cat(vec![Repeat(bx(Any), 0, None, Q::Greedy), h]) },
        Ctx { name: ".*?□", pre: 0, build: |h, _| cat(vec![Repeat(bx(Any), 0, None, Q::Lazy), h]) },
    ]
}

/// Loops whose body runs a committing construct (look-behind, look-ahead, atomic group, condition) over a body with
/// several matching alternatives that the VM interprets itself: if the construct did not commit, every iteration
/// would leave an alternative behind and a failing tail would cost exponentially many backtracks.
pub fn loop_commit_products() -> Vec<Node> {
    let neg = |c: char| Look(bx(Lit(c)), false, true);
    let hard_alts: Vec<Node> = vec![
        Alt(vec![cat(vec![Lit('a'), neg('c')]), cat(vec![Perl('w'), neg('b')])]),
        Alt(vec![cat(vec![Lit('a'), Look(bx(Empty), false, false)]), Any]),
        Alt(vec![cat(vec![Assert(A::NotWordB), Lit('a')]), cat(vec![Look(bx(Empty), false, false), Class(false, vec![('a', 'b')])])]),
        Alt(vec![cat(vec![Look(bx(Lit('a')), false, false), Any]), cat(vec![Any, Look(bx(Empty), false, false)])]),
    ];
    let mut out = vec![];
    for f in &hard_alts {
        let star = |body: Node| cat(vec![Assert(A::StartText), Repeat(bx(body), 0, None, Q::Greedy), Lit('c')]);
        out.push(star(cat(vec![Any, Look(bx(f.clone()), true, false)])));
        out.push(star(cat(vec![Look(bx(f.clone()), false, false), Any])));
        out.push(star(Atomic(bx(f.clone()))));
        out.push(star(cat(vec![Any, Look(bx(Look(bx(f.clone()), true, false)), false, false)])));
        out.push(star(CondExpr(bx(f.clone()), bx(Empty), bx(Lit('b')))));
        out.push(star(cat(vec![Group(bx(Atomic(bx(f.clone())))), Look(bx(Backref(1)), true, false)])));
        out.push(cat(vec![Repeat(bx(cat(vec![Any, Look(bx(f.clone()), true, false)])), 1, None, Q::Lazy), Lit('c')]));
    }
    // plain (delegable) alternatives of different lengths in a look-behind: the crate rewrites (?<=a|ba) into one
    // look-behind per alternative, which has to be committed as a whole as well
    let plain_alts: Vec<Node> = vec![
        Alt(vec![Lit('a'), cat(vec![Lit('b'), Lit('a')])]),
        Alt(vec![cat(vec![Lit('b'), Lit('a')]), Lit('a')]),
        Alt(vec![Any, cat(vec![Any, Any]), Lit('a')]),
    ];
    for f in &plain_alts {
        out.push(cat(vec![Repeat(bx(cat(vec![Lit('b'), Lit('a'), Look(bx(f.clone()), true, false)])), 0, None, Q::Greedy), Lit('c')]));
        out.push(cat(vec![Assert(A::StartText), Repeat(bx(cat(vec![Any, Look(bx(f.clone()), true, false)])), 0, None, Q::Greedy), Lit('c')]));
        out.push(cat(vec![Repeat(bx(cat(vec![Any, Any, Look(bx(f.clone()), true, false)])), 1, None, Q::Lazy), Lit('c')]));
    }
    dedup_by_print(out)
}

/// Counted repeats whose lower bound exceeds the upper bound (`x{1,0}`, `x{3,2}`) around VM-interpreted and plain
/// children, bare and inside loops / groups: the crate must reject them (finding F24) or treat them sanely.
pub fn inverted_repeat_patterns() -> Vec<Node> {
    let children = vec![
        cat(vec![Look(bx(Lit('a')), false, false), Lit('a')]),
        Lit('a'),
        Group(bx(Lit('a'))),
        Atomic(bx(Lit('a'))),
        cat(vec![Assert(A::WordB), Lit('a')]),
        Alt(vec![Lit('a'), cat(vec![Lit('a'), Lit('b')])]),
    ];
    let mut out = vec![];
    for c in &children {
        for (lo, hi) in [(1u32, 0u32), (3, 2), (2, 1), (2, 0)] {
            for q in [Q::Greedy, Q::Lazy, Q::Poss] {
                let r = Repeat(bx(c.clone()), lo, Some(hi), q);
                out.push(r.clone());
                out.push(cat(vec![Repeat(bx(r.clone()), 0, None, Q::Greedy), Lit('b')]));
                out.push(cat(vec![Group(bx(r.clone())), Backref(c.n_groups() + 1)]));
                out.push(cat(vec![Look(bx(Empty), false, false), r.clone(), Lit('b')]));
                out.push(Repeat(bx(Group(bx(r.clone()))), 1, None, Q::Greedy));
                out.push(Look(bx(r), true, false));
            }
        }
    }
    dedup_by_print(out)
}

/// contexts that introduce conditionals (C15)
pub fn cond_contexts() -> Vec<Ctx> {
    fn g(n: Node) -> Node {
        Group(bx(n))
    }
    vec![
        Ctx { name: "(?(□)a|b)", pre: 0, build: |h, _| if h == Empty || matches!(h, Backref(_)) { h } else { CondExpr(bx(h), bx(Lit('a')), bx(Lit('b'))) } },
        Ctx { name: "(?(□)a)", pre: 0, build: |h, _| if h == Empty || matches!(h, Backref(_)) { h } else { CondExpr(bx(h), bx(Lit('a')), bx(Empty)) } },
        Ctx { name: "(?(a)□|b)", pre: 0, build: |h, _| CondExpr(bx(Lit('a')), bx(h), bx(Lit('b'))) },
        Ctx { name: "(?(a)□)", pre: 0, build: |h, _| if h == Empty { h } else { CondExpr(bx(Lit('a')), bx(h), bx(Empty)) } },
        Ctx { name: "(a)?(?(1)□)", pre: 1, build: |h, g0| if h == Empty { h } else { cat(vec![Repeat(bx(g(Lit('a'))), 0, Some(1), Q::Greedy), CondGroup(g0 + 1, bx(h), bx(Empty))]) } },
        Ctx { name: "(?(a)b|□)", pre: 0, build: |h, _| CondExpr(bx(Lit('a')), bx(Lit('b')), bx(h)) },
        Ctx { name: "(a)?(?(1)□|b)", pre: 1, build: |h, g0| cat(vec![Repeat(bx(g(Lit('a'))), 0, Some(1), Q::Greedy), CondGroup(g0 + 1, bx(h), bx(Lit('b')))]) },
        Ctx { name: "(a)?(?(1)b|□)", pre: 1, build: |h, g0| cat(vec![Repeat(bx(g(Lit('a'))), 0, Some(1), Q::Greedy), CondGroup(g0 + 1, bx(Lit('b')), bx(h))]) },
        Ctx { name: "(a|(b))(?(2)□|a)", pre: 2, build: |h, g0| cat(vec![g(Alt(vec![Lit('a'), g(Lit('b'))])), CondGroup(g0 + 2, bx(h), bx(Lit('a')))]) },
        Ctx { name: "(?:(a)|b)(?(1))□", pre: 1, build: |h, g0| cat(vec![Alt(vec![g(Lit('a')), Lit('b')]), GroupExists(g0 + 1), h]) },
        Ctx { name: "(?:(?(a)□|b))+", pre: 0, build: |h, _| Repeat(bx(CondExpr(bx(Lit('a')), bx(h), bx(Lit('b')))), 1, None, Q::Greedy) },
        Ctx { name: "(?:(?(a)□|b)){2}", pre: 0, build: |h, _| Repeat(bx(CondExpr(bx(Lit('a')), bx(h), bx(Lit('b')))), 2, Some(2), Q::Greedy) },
        Ctx { name: "((?(a)□|b))\\1", pre: 1, build: |h, g0| cat(vec![g(CondExpr(bx(Lit('a')), bx(h), bx(Lit('b')))), Backref(g0 + 1)]) },
    ]
}

pub struct Filler {
    pub build: fn(usize) -> Node,
}

pub fn fillers() -> Vec<Filler> {
    fn g(n: Node) -> Node {
        Group(bx(n))
    }
    fn ab() -> Node {
        Concat(vec![Lit('a'), Lit('b')])
    }
    vec![
        Filler { build: |_| Lit('a') },
        Filler { build: |_| Lit('b') },
        Filler { build: |_| Lit('é') },
        Filler { build: |_| Empty },
        Filler { build: |_| Any },
        Filler { build: |_| ab() },
        Filler { build: |_| Concat(vec![Lit('é'), Lit('a')]) },
        Filler { build: |_| Class(false, vec![('a', 'b')]) },
        Filler { build: |_| Class(true, vec![('a', 'a')]) },
        Filler { build: |_| Alt(vec![Lit('a'), ab()]) },
        Filler { build: |_| Alt(vec![ab(), Lit('a')]) },
        Filler { build: |_| Alt(vec![Lit('a'), Lit('b')]) },
        Filler { build: |_| Alt(vec![Lit('a'), Empty]) },
        Filler { build: |_| Alt(vec![Empty, Lit('a')]) },
        Filler { build: |_| Alt(vec![Lit('a'), Lit('é')]) },
        Filler { build: |_| Alt(vec![Lit('b'), Concat(vec![Lit('a'), Lit('a')])]) },
        Filler { build: |_| Repeat(bx(Lit('a')), 0, None, Q::Greedy) },
        Filler { build: |_| Repeat(bx(Lit('a')), 1, None, Q::Greedy) },
        Filler { build: |_| Repeat(bx(Lit('a')), 0, None, Q::Lazy) },
        Filler { build: |_| Repeat(bx(Lit('a')), 1, None, Q::Lazy) },
        Filler { build: |_| Repeat(bx(Lit('a')), 0, Some(1), Q::Greedy) },
        Filler { build: |_| Repeat(bx(Lit('a')), 0, Some(1), Q::Lazy) },
        Filler { build: |_| Repeat(bx(Lit('a')), 2, Some(2), Q::Greedy) },
        Filler { build: |_| Repeat(bx(Lit('a')), 1, Some(2), Q::Greedy) },
        Filler { build: |_| Repeat(bx(Lit('a')), 1, Some(2), Q::Lazy) },
        Filler { build: |_| Repeat(bx(Lit('a')), 1, Some(1), Q::Lazy) },
        Filler { build: |_| Repeat(bx(Lit('a')), 1, Some(1), Q::Greedy) },
        Filler { build: |_| Repeat(bx(Alt(vec![Lit('a'), ab()])), 1, Some(1), Q::Lazy) },
        Filler { build: |_| Repeat(bx(Lit('a')), 0, Some(0), Q::Greedy) },
        Filler { build: |_| Repeat(bx(g(Lit('a'))), 0, Some(0), Q::Greedy) },
        Filler { build: |_| Concat(vec![Lit('a'), Repeat(bx(g(Lit('a'))), 0, Some(0), Q::Greedy)]) },
        Filler { build: |_| Concat(vec![Repeat(bx(g(Lit('a'))), 0, Some(1), Q::Poss), Lit('a'), Repeat(bx(g(Lit('a'))), 0, Some(0), Q::Greedy)]) },
        Filler { build: |_| Repeat(bx(Lit('a')), 0, None, Q::Poss) },
        Filler { build: |_| Repeat(bx(Any), 0, None, Q::Greedy) },
        Filler { build: |_| Repeat(bx(Any), 0, None, Q::Lazy) },
        Filler { build: |_| Repeat(bx(Class(false, vec![('a', 'b')])), 1, None, Q::Greedy) },
        Filler { build: |_| g(Lit('a')) },
        Filler { build: |_| g(Alt(vec![Lit('a'), ab()])) },
        Filler { build: |_| g(Repeat(bx(Lit('a')), 0, None, Q::Greedy)) },
        Filler { build: |_| Repeat(bx(g(Lit('a'))), 0, None, Q::Greedy) },
        Filler { build: |_| Repeat(bx(g(Lit('a'))), 0, Some(1), Q::Greedy) },
        Filler { build: |_| Repeat(bx(g(Alt(vec![Lit('a'), Lit('b')]))), 1, None, Q::Greedy) },
        Filler { build: |_| Alt(vec![g(Lit('a')), Lit('b')]) },
        Filler { build: |_| Alt(vec![g(Lit('a')), g(Lit('b'))]) },
        Filler { build: |_| Alt(vec![g(Lit('a')), Lit('a')]) },
        Filler { build: |_| Alt(vec![Lit('a'), g(Lit('a'))]) },
        Filler { build: |_| Alt(vec![Concat(vec![g(Lit('a')), Look(bx(Any), false, false)]), Lit('a')]) },
        Filler { build: |_| Alt(vec![Concat(vec![g(Lit('a')), Look(bx(Lit('b')), false, true)]), Lit('a')]) },
        Filler { build: |g0| Concat(vec![g(Lit('a')), Backref(g0 + 1)]) },
        Filler { build: |g0| Concat(vec![g(Alt(vec![Lit('a'), ab()])), Backref(g0 + 1)]) },
        Filler { build: |g0| Concat(vec![g(Repeat(bx(Any), 0, None, Q::Greedy)), Backref(g0 + 1)]) },
        Filler { build: |g0| Concat(vec![Repeat(bx(g(Lit('a'))), 0, Some(1), Q::Greedy), Backref(g0 + 1)]) },
        Filler { build: |_| Look(bx(Lit('a')), false, false) },
        Filler { build: |_| Look(bx(Lit('a')), false, true) },
        Filler { build: |_| Look(bx(Lit('a')), true, false) },
        Filler { build: |_| Look(bx(Lit('a')), true, true) },
        Filler { build: |_| Look(bx(Lit('é')), true, false) },
        Filler { build: |_| Look(bx(Alt(vec![Lit('a'), Concat(vec![Lit('b'), Lit('b')])])), true, false) },
        Filler { build: |_| Look(bx(Alt(vec![Lit('a'), Concat(vec![Lit('b'), Lit('b')])])), true, true) },
        Filler { build: |_| Look(bx(g(Alt(vec![Lit('a'), ab()]))), false, false) },
        Filler { build: |_| Look(bx(Alt(vec![g(Lit('a')), g(Concat(vec![Lit('b'), Lit('a')]))])), true, false) },
        Filler { build: |_| Look(bx(Alt(vec![g(Lit('a')), Concat(vec![Lit('b'), Lit('a')])])), true, false) },
        Filler { build: |_| Look(bx(Empty), false, false) },
        Filler { build: |_| Concat(vec![Look(bx(g(Lit('a'))), false, false), Lit('a')]) },
        Filler { build: |_| Atomic(bx(Alt(vec![Lit('a'), ab()]))) },
        Filler { build: |_| Atomic(bx(Repeat(bx(Lit('a')), 0, None, Q::Greedy))) },
        Filler { build: |_| Atomic(bx(g(Alt(vec![Lit('a'), ab()])))) },
        Filler { build: |_| Assert(A::WordB) },
        Filler { build: |_| Assert(A::StartText) },
        Filler { build: |_| Assert(A::EndText) },
        Filler { build: |_| Concat(vec![Assert(A::WordB), Lit('a')]) },
        Filler { build: |_| Concat(vec![Lit('a'), Assert(A::WordB)]) },
        Filler { build: |_| KeepOut },
        Filler { build: |_| Concat(vec![Lit('a'), KeepOut]) },
        Filler { build: |_| Concat(vec![Lit('a'), KeepOut, Lit('b')]) },
    ]
}

/// contexts composed up to `depth` (1 or 2), filled with all fillers
pub fn products(ctxs: &[Ctx], inner_ctxs: &[Ctx], fillers: &[Filler], depth: usize) -> Vec<Node> {
    let mut out = Vec::new();
    for c1 in ctxs {
        for f in fillers {
            out.push((c1.build)((f.build)(c1.pre), 0));
        }
        if depth >= 2 {
            for c2 in inner_ctxs {
                for f in fillers {
                    let g_inner = c1.pre;
                    let inner = (c2.build)((f.build)(g_inner + c2.pre), g_inner);
                    out.push((c1.build)(inner, 0));
                }
            }
        }
    }
    out
}

// ---------------------------------------------------------------------------------------------
// byte-decoded random patterns

pub struct Dec<'a> {
    b: &'a [u8],
    i: usize,
}

impl<'a> Dec<'a> {
    pub fn new(b: &'a [u8]) -> Self {
        Dec { b, i: 0 }
    }
    pub fn u8(&mut self) -> u8 {
        let v = self.b.get(self.i).copied().unwrap_or(0);
        self.i += 1;
        v
    }
    /// monotone map of one byte onto 0..n (n <= 256)
    pub fn below(&mut self, n: usize) -> usize {
        (self.u8() as usize * n) >> 8
    }
    pub fn exhausted(&self) -> bool {
        self.i >= self.b.len()
    }
    pub fn used(&self) -> usize {
        self.i.min(self.b.len())
    }
}

#[derive(Clone, Debug)]
pub struct RandCfg {
    pub lits: Vec<char>,
    pub cond: bool,
    pub keepout: bool,
    pub contg: bool,
    /// allow references to groups that are still open (self-referential)
    pub open_refs: bool,
    pub lookbehind: bool,
    pub max_nodes: usize,
    /// only the syntax shared with the regex crate (no look-around, atomic, back-reference, possessive)
    pub plain: bool,
    /// scoped flag groups `(?i:..)`, `(?-i:..)`, `(?s:..)`, `(?m:..)`, `(?U:..)` and combinations
    pub flags: bool,
}

impl RandCfg {
    pub fn core() -> Self {
        RandCfg { lits: vec!['a', 'b', 'c', 'é'], cond: false, keepout: true, contg: false, open_refs: false, lookbehind: true, max_nodes: 14, plain: false, flags: false }
    }
    pub fn cond() -> Self {
        RandCfg { cond: true, ..Self::core() }
    }
    /// core grammar + scoped flag groups over mixed-case literals
    pub fn flagged() -> Self {
        RandCfg { lits: vec!['a', 'B', 'b', '\n'], flags: true, ..Self::core() }
    }
    pub fn wild() -> Self {
        RandCfg { cond: true, contg: true, open_refs: true, ..Self::core() }
    }
}

pub struct RandGen<'c, 'a> {
    pub d: Dec<'a>,
    cfg: &'c RandCfg,
    ngroups: usize,
    closed: Vec<usize>,
    open: Vec<usize>,
    nodes: usize,
}

impl<'c, 'a> RandGen<'c, 'a> {
    pub fn new(cfg: &'c RandCfg, bytes: &'a [u8]) -> Self {
        RandGen { d: Dec::new(bytes), cfg, ngroups: 0, closed: vec![], open: vec![], nodes: 0 }
    }

    fn refs(&self) -> Vec<usize> {
        let mut v = self.closed.clone();
        if self.cfg.open_refs {
            v.extend(self.open.iter().copied());
        }
        v
    }

    fn leaf(&mut self) -> Node {
        self.nodes += 1;
        let r = self.d.below(24);
        match r {
            0..=2 => Lit(self.cfg.lits[0]),
            3..=4 => Lit(self.cfg.lits[1 % self.cfg.lits.len()]),
            5 => Lit(self.cfg.lits[2 % self.cfg.lits.len()]),
            6 => Lit(self.cfg.lits[3 % self.cfg.lits.len()]),
            7 => Any,
            8 => Class(false, vec![('a', 'b')]),
            9 => Class(true, vec![('a', 'a')]),
            10 => Assert(A::StartText),
            11 => Assert(A::EndText),
            12 => Assert(A::WordB),
            13 => Assert(A::NotWordB),
            14..=17 => {
                let refs = self.refs();
                if self.cfg.plain {
                    [Perl('W'), Assert(A::WordStart), Assert(A::WordEnd), AnyNl][self.d.below(4)].clone()
                } else if refs.is_empty() {
                    Lit(self.cfg.lits[0])
                } else {
                    Backref(refs[self.d.below(refs.len())])
                }
            }
            18 => {
                if self.cfg.keepout {
                    KeepOut
                } else {
                    Lit(self.cfg.lits[0])
                }
            }
            19 => Empty,
            20 => {
                let refs = self.refs();
                if self.cfg.cond && !refs.is_empty() {
                    GroupExists(refs[self.d.below(refs.len())])
                } else {
                    Lit(self.cfg.lits[1 % self.cfg.lits.len()])
                }
            }
            21 => {
                if self.cfg.contg {
                    ContG
                } else {
                    Any
                }
            }
            22 => Perl('w'),
            _ => Assert(A::StartLine),
        }
    }

    pub fn node(&mut self, budget: usize) -> Node {
        if budget <= 1 || self.nodes >= self.cfg.max_nodes || self.d.exhausted() {
            return self.leaf();
        }
        let mut r = self.d.below(if self.cfg.flags { 32 } else { 28 });
        if self.cfg.plain && (21..28).contains(&r) {
            r = 3 + (r - 21) * 2; // look-around / atomic / conditional slots become concat, alt, group, repeat
        }
        self.nodes += 1;
        match r {
            0..=2 => self.leaf_undo(),
            3..=8 => {
                let k = 2 + self.d.below(3);
                let each = ((budget - 1) / k).max(1);
                let mut v = vec![];
                for _ in 0..k {
                    let c = self.node(each);
                    if c != Empty && !matches!(c, Concat(_)) {
                        v.push(c);
                    }
                }
                if v.len() < 2 {
                    return v.pop().unwrap_or_else(|| self.leaf_undo());
                }
                Concat(v)
            }
            9..=12 => {
                let k = 2 + self.d.below(2);
                let each = ((budget - 1) / k).max(1);
                let mut v = vec![];
                for _ in 0..k {
                    let c = self.node(each);
                    if !matches!(c, Alt(_)) {
                        v.push(c);
                    }
                }
                if v.len() < 2 {
                    return v.pop().unwrap_or_else(|| self.leaf_undo());
                }
                Alt(v)
            }
            13..=16 => {
                self.ngroups += 1;
                let idx = self.ngroups;
                self.open.push(idx);
                let c = self.node(budget - 1);
                self.open.pop();
                self.closed.push(idx);
                Group(bx(c))
            }
            17..=20 => {
                let c = self.node(budget - 1);
                if !c.repeatable() {
                    return c;
                }
                const R: [(u32, Option<u32>); 10] = [(0, Some(1)), (0, None), (1, None), (2, Some(2)), (1, Some(2)), (0, Some(2)), (2, None), (1, Some(3)), (0, Some(0)), (1, Some(1))];
                let (lo, hi) = R[self.d.below(R.len())];
                let mut q = [Q::Greedy, Q::Greedy, Q::Lazy, Q::Poss][self.d.below(4)];
                if self.cfg.plain && q == Q::Poss {
                    q = Q::Lazy;
                }
                Repeat(bx(c), lo, hi, q)
            }
            21..=23 => {
                let behind = self.cfg.lookbehind && self.d.below(3) == 2;
                let neg = self.d.below(3) == 2;
                // groups closed inside a negative look-around are never set afterwards: references
                // to them are still syntactically fine
                let c = self.node(budget - 1);
                Look(bx(c), behind, neg)
            }
            24..=25 => {
                let c = self.node(budget - 1);
                Atomic(bx(c))
            }
            26 => {
                let refs = self.refs();
                if !self.cfg.cond || refs.is_empty() {
                    return self.leaf_undo();
                }
                let g = refs[self.d.below(refs.len())];
                let y = self.node((budget - 1) / 2);
                let n = self.node((budget - 1) / 2);
                if y == Empty && n == Empty {
                    return GroupExists(g);
                }
                CondGroup(g, bx(y), bx(n))
            }
            28..=31 => {
                const F: [(&str, &str); 8] = [("i", ""), ("", "i"), ("s", ""), ("m", ""), ("U", ""), ("is", "m"), ("i", "s"), ("mU", "i")];
                let (on, off) = F[self.d.below(F.len())];
                let c = self.node(budget - 1);
                Flags(on.into(), off.into(), bx(c))
            }
            _ => {
                if !self.cfg.cond {
                    return self.leaf_undo();
                }
                let c = self.node((budget - 1) / 3);
                let y = self.node((budget - 1) / 3);
                let n = self.node((budget - 1) / 3);
                if c == Empty || (y == Empty && n == Empty) {
                    return c;
                }
                CondExpr(bx(c), bx(y), bx(n))
            }
        }
    }

    fn leaf_undo(&mut self) -> Node {
        self.nodes -= 1;
        self.leaf()
    }
}

/// Wide patterns: 8..37 capture groups in a row (two-digit group numbers, save slots beyond 64), wrapped in an atomic
/// group / counted repeat / look-ahead / possessive repeat, followed by a tail that reads a random group back.
pub fn decode_wide(bytes: &[u8]) -> Node {
    let mut d = Dec::new(bytes);
    let k = 8 + d.below(30);
    let mut units = vec![];
    for _ in 0..k {
        units.push(match d.below(10) {
            0..=3 => Group(bx(Lit('a'))),
            4..=5 => Group(bx(Lit('b'))),
            6 => Group(bx(Alt(vec![Lit('a'), Lit('b')]))),
            7 => Repeat(bx(Group(bx(Lit('b')))), 0, Some(1), Q::Greedy),
            8 => Group(bx(Any)),
            _ => Group(bx(Repeat(bx(Lit('a')), 0, Some(1), Q::Lazy))),
        });
    }
    let g = 1 + d.below(k);
    let tail = match d.below(6) {
        0 | 1 => Backref(g),
        2 => Look(bx(Backref(g)), false, true),
        3 => Lit('c'),
        4 => cat(vec![Look(bx(Backref(g)), false, false), Any]),
        _ => Empty,
    };
    let body = Concat(units);
    match d.below(6) {
        0 => cat(vec![Atomic(bx(body)), tail]),
        1 => cat(vec![Repeat(bx(body), 2, Some(2), Q::Greedy), tail]),
        2 => cat(vec![Look(bx(body), false, false), tail]),
        3 => cat(vec![body, tail]),
        4 => cat(vec![Repeat(bx(body), 1, Some(2), Q::Poss), tail]),
        _ => cat(vec![Atomic(bx(cat(vec![body, Look(bx(Lit('c')), false, true)]))), tail]),
    }
}

pub fn wide_texts() -> Vec<String> {
    let mut t: Vec<String> = vec!["a".repeat(40), "ab".repeat(20), "abba".repeat(10), "aab".repeat(14), "b".repeat(38), "a".repeat(12) + "c", "ab".repeat(8) + "c", "aaaaaaaab".repeat(5)];
    t.push("a".repeat(9));
    t.push("ab".repeat(37));
    t
}

pub fn decode_pattern(cfg: &RandCfg, bytes: &[u8]) -> Node {
    let mut g = RandGen::new(cfg, bytes);
    g.node(cfg.max_nodes)
}

/// decode a short text over the given alphabet from bytes
pub fn decode_text(d: &mut Dec<'_>, alpha: &[char], maxlen: usize) -> String {
    let n = d.below(maxlen + 1);
    (0..n).map(|_| alpha[d.below(alpha.len())]).collect()
}

// ---------------------------------------------------------------------------------------------
// texts

pub fn texts(alpha: &[char], maxlen: usize) -> Vec<String> {
    let mut out = vec![String::new()];
    let mut frontier = vec![String::new()];
    for _ in 0..maxlen {
        let mut next = Vec::new();
        for t in &frontier {
            for c in alpha {
                let mut s = t.clone();
                s.push(*c);
                next.push(s);
            }
        }
        out.extend(next.iter().cloned());
        frontier = next;
    }
    out
}

pub const SIGMA: [char; 6] = ['a', 'b', 'c', 'é', '\n', '-'];
pub const SIGMA5: [char; 5] = ['a', 'b', 'é', '\n', '-'];
pub const MB: [char; 5] = ['a', 'é', '€', '😀', '\n'];

/// Σ up to `len` (capped at 3..4) plus {a,b} up to `ablen`
pub fn text_set(sigma: &[char], len: usize, ablen: usize) -> Vec<String> {
    let mut ts = texts(sigma, len);
    if ablen > len {
        ts.extend(texts(&['a', 'b'], ablen).into_iter().filter(|t| t.chars().count() > len));
    }
    ts
}

/// characters whose UTF-8 lead bytes sit on the boundaries of the length classes
/// (C2, DF | E0, EF | F0, F4): U+0080, U+07FF, U+0800, U+FFFD, U+10000, U+10FFFF
pub const EDGE: [char; 6] = ['\u{80}', '\u{7ff}', '\u{800}', '\u{fffd}', '\u{10000}', '\u{10ffff}'];

pub fn edge_texts() -> Vec<String> {
    let mut t = vec![];
    for c in EDGE {
        for shape in ["#", "#a", "a#", "a#a", "##", "#aa", "aa#", "#ab", "a#b", "#a#"] {
            t.push(shape.replace('#', &c.to_string()));
        }
    }
    t
}

/// texts with carriage returns (line anchors are LF-only unless CRLF mode is requested)
pub fn cr_texts() -> Vec<String> {
    ["\r", "a\r", "\ra", "a\rb", "a\r\nb", "\r\n", "ab\rcd", "a\n\rb", "\r\r", "a\r\n", "\r\na"].iter().map(|s| s.to_string()).collect()
}
