//! Shared machinery: statistics, evidence files, known findings, replay files, the pattern-property
//! trait with its exhaustive / random drivers, and the greedy shrinker.
use crate::ast::{Node, Node::*, Q};
use crate::astjson;
use crate::gen::{self, RandCfg};
use proptest::strategy::{Strategy, ValueTree};
use proptest::test_runner::{Config, RngAlgorithm, TestCaseError, TestError, TestRng, TestRunner};
use rayon::prelude::*;
use serde_json::{json, Value};
use std::cell::{Cell, RefCell};
use std::collections::hash_map::DefaultHasher;
use std::collections::{BTreeMap, HashMap};
use std::hash::{Hash, Hasher};
use std::sync::atomic::{AtomicBool, Ordering};
use std::sync::Mutex;
use std::time::Instant;

/// root of the verification tree (the directory of the `check` script; /verif unless VERIF_DIR is set)
pub fn verif_dir() -> String {
    std::env::var("VERIF_DIR").unwrap_or_else(|_| "/verif".to_string())
}

#[derive(Clone, Copy, Debug, PartialEq, Eq)]
pub enum Tier {
    Quick,
    Thorough,
}

impl Tier {
    pub fn name(&self) -> &'static str {
        match self {
            Tier::Quick => "quick",
            Tier::Thorough => "thorough",
        }
    }
}

pub fn hash64<T: Hash>(t: &T) -> u64 {
    let mut h = DefaultHasher::new();
    t.hash(&mut h);
    h.finish()
}

// ---------------------------------------------------------------------------------------------
// statistics

#[derive(Default, Debug, Clone)]
pub struct Stats {
    pub evaluations: u64,
    /// key (pattern / case hash) -> number of distinct non-trivial cases under that key
    pub nontrivial: HashMap<u64, u32>,
    pub classes: BTreeMap<String, u64>,
    pub skipped: BTreeMap<String, u64>,
    pub excluded: BTreeMap<String, u64>,
    pub samples: Vec<Value>,
    pub patterns: u64,
}

impl Stats {
    pub fn class(&mut self, c: &str) {
        *self.classes.entry(c.to_string()).or_insert(0) += 1;
    }
    pub fn class_n(&mut self, c: &str, n: u64) {
        *self.classes.entry(c.to_string()).or_insert(0) += n;
    }
    pub fn skip(&mut self, c: &str) {
        *self.skipped.entry(c.to_string()).or_insert(0) += 1;
    }
    pub fn exclude(&mut self, c: &str) {
        *self.excluded.entry(c.to_string()).or_insert(0) += 1;
    }
    pub fn nontrivial_add(&mut self, key: u64, n: u32) {
        if n > 0 {
            // a key seen twice (same pattern generated again) is counted once
            self.nontrivial.entry(key).or_insert(n);
        }
    }
    pub fn sample(&mut self, v: Value) {
        if self.samples.len() < 6 {
            self.samples.push(v);
        }
    }
    pub fn merge(&mut self, o: Stats) {
        self.evaluations += o.evaluations;
        self.patterns += o.patterns;
        for (k, v) in o.nontrivial {
            self.nontrivial.entry(k).or_insert(v);
        }
        for (k, v) in o.classes {
            *self.classes.entry(k).or_insert(0) += v;
        }
        for (k, v) in o.skipped {
            *self.skipped.entry(k).or_insert(0) += v;
        }
        for (k, v) in o.excluded {
            *self.excluded.entry(k).or_insert(0) += v;
        }
        for s in o.samples {
            if self.samples.len() < 24 {
                self.samples.push(s);
            }
        }
    }
    pub fn distinct_nontrivial(&self) -> u64 {
        self.nontrivial.values().map(|v| *v as u64).sum()
    }
}

// ---------------------------------------------------------------------------------------------
// failures, replay files

#[derive(Clone, Debug)]
pub struct Fail {
    pub kind: String,
    pub expected: String,
    pub actual: String,
}

impl Fail {
    pub fn new(kind: &str, expected: impl Into<String>, actual: impl Into<String>) -> Fail {
        Fail { kind: kind.to_string(), expected: expected.into(), actual: actual.into() }
    }
}

/// A violation with the (property specific) case that reproduces it
#[derive(Clone, Debug)]
pub struct Violation {
    pub case: Value,
    pub fail: Fail,
}

pub fn pat_case(pattern: &str, n: &Node, text: &str, pos: usize, extra: Value) -> Value {
    json!({"pattern": pattern, "ast": astjson::to_json(n), "text": text, "pos": pos, "extra": extra})
}

pub fn case_node(case: &Value) -> Option<Node> {
    astjson::from_json(case.get("ast")?)
}

pub fn write_replay(ctx: &RunCtx, v: &Violation) -> String {
    let dir = format!("{}/replays/{}", verif_dir(), ctx.prop);
    let _ = std::fs::create_dir_all(&dir);
    let body = json!({
        "property": ctx.prop,
        "kind": v.fail.kind,
        "case": v.case,
        "expected": v.fail.expected,
        "actual": v.fail.actual,
        "seed": ctx.seed,
        "tier": ctx.tier.name(),
    });
    let h = hash64(&format!("{}{}", v.fail.kind, v.case));
    let path = format!("{}/found-{:016x}.json", dir, h);
    let _ = std::fs::write(&path, serde_json::to_string_pretty(&body).unwrap());
    path
}

// ---------------------------------------------------------------------------------------------
// known findings

#[derive(Clone, Debug)]
pub struct KnownEntry {
    pub id: String,
    pub status: String,
    pub properties: Vec<String>,
    pub signature: Option<String>,
    pub what: String,
    pub witnesses: Vec<Value>,
}

#[derive(Clone, Debug, Default)]
pub struct Known {
    pub entries: Vec<KnownEntry>,
}

impl Known {
    pub fn load() -> Known {
        let path = format!("{}/known_findings.json", verif_dir());
        let mut k = Known::default();
        // maintenance aid (never set by the registered commands): pretend the listed findings are not
        // in the file, so that the exploration rediscovers them and their witnesses can be recorded
        let ignore: Vec<String> = std::env::var("VERIF_IGNORE_KNOWN").map(|s| s.split(',').map(|x| x.to_string()).collect()).unwrap_or_default();
        let Ok(s) = std::fs::read_to_string(&path) else { return k };
        let Ok(v) = serde_json::from_str::<Value>(&s) else {
            eprintln!("warning: cannot parse {}", path);
            return k;
        };
        for e in v.get("findings").and_then(|f| f.as_array()).cloned().unwrap_or_default() {
            let strs = |key: &str| -> Vec<String> {
                e.get(key).and_then(|x| x.as_array()).map(|a| a.iter().filter_map(|s| s.as_str().map(|s| s.to_string())).collect()).unwrap_or_default()
            };
            if ignore.iter().any(|i| Some(i.as_str()) == e.get("id").and_then(|x| x.as_str())) {
                continue;
            }
            k.entries.push(KnownEntry {
                id: e.get("id").and_then(|x| x.as_str()).unwrap_or("?").to_string(),
                status: e.get("status").and_then(|x| x.as_str()).unwrap_or("known").to_string(),
                properties: strs("properties"),
                signature: e.get("signature").and_then(|x| x.as_str()).map(|s| s.to_string()),
                what: e.get("what").and_then(|x| x.as_str()).unwrap_or("").to_string(),
                witnesses: e.get("witnesses").and_then(|x| x.as_array()).cloned().unwrap_or_default(),
            });
        }
        k
    }

    /// is the signature class listed as a known (unrepaired) finding for this property?
    pub fn active(&self, prop: &str, sig: &str) -> bool {
        self.entries.iter().any(|e| e.status == "known" && e.signature.as_deref() == Some(sig) && e.properties.iter().any(|p| p == prop))
    }
}

// ---------------------------------------------------------------------------------------------
// run context and outcome

pub struct RunCtx {
    pub prop: &'static str,
    pub tier: Tier,
    pub seed: u64,
    pub known: Known,
    pub start: Instant,
    pub strict: bool,
}

impl RunCtx {
    pub fn quick(&self) -> bool {
        self.tier == Tier::Quick
    }
    pub fn active(&self, sig: &str) -> bool {
        !self.strict && self.known.active(self.prop, sig)
    }
    /// deterministic sub-seed
    pub fn subseed(&self, label: &str, shard: u64) -> [u8; 32] {
        let mut out = [0u8; 32];
        for i in 0..4u64 {
            let h = hash64(&(self.seed, self.prop, label, shard, i));
            out[(i as usize) * 8..(i as usize + 1) * 8].copy_from_slice(&h.to_le_bytes());
        }
        out
    }
}

#[derive(Default)]
pub struct Outcome {
    pub stats: Stats,
    pub violations: Vec<Violation>,
    pub rule: String,
    pub exhaustive: Option<String>,
    pub generators: Vec<Value>,
    pub assumptions: Vec<String>,
    pub extra: BTreeMap<String, Value>,
    /// classes that must be non-empty for the run to be meaningful
    pub required_classes: Vec<String>,
    pub infra_error: Option<String>,
}

impl Outcome {
    pub fn absorb(&mut self, st: Stats, v: Option<Violation>) {
        self.stats.merge(st);
        if let Some(v) = v {
            self.violations.push(v);
        }
    }
}

pub fn write_evidence(ctx: &RunCtx, o: &Outcome, known_reported: &[String]) {
    let dir = format!("{}/evidence", verif_dir());
    let _ = std::fs::create_dir_all(&dir);
    let mut samples = o.stats.samples.clone();
    samples.truncate(20);
    let mut coverage = json!({
        "evaluations": o.stats.evaluations,
        "distinct_nontrivial": o.stats.distinct_nontrivial(),
        "rule": o.rule,
        "samples": samples,
        "patterns_or_inputs": o.stats.patterns,
        "classes": o.stats.classes,
        "skipped": o.stats.skipped,
        "excluded_known": o.stats.excluded,
        "generators": o.generators,
        "known_findings_reported": known_reported,
    });
    if let Some(e) = &o.exhaustive {
        coverage["exhaustive"] = json!(true);
        coverage["exhaustive_bound"] = json!(e);
    }
    for (k, v) in &o.extra {
        coverage[k] = v.clone();
    }
    let body = json!({
        "property_id": ctx.prop,
        "tier": ctx.tier.name(),
        "seed": ctx.seed,
        "level": "exploration",
        "coverage": coverage,
        "assumptions": o.assumptions,
        "wall_s": ctx.start.elapsed().as_secs_f64(),
        "violations": o.violations.len(),
    });
    let path = format!("{}/{}.json", dir, ctx.prop);
    std::fs::write(&path, serde_json::to_string_pretty(&body).unwrap()).expect("write evidence");
}

// ---------------------------------------------------------------------------------------------
// pattern properties

pub enum Prep<T> {
    Ready(T),
    /// not in the property's domain (does not compile, ...): counted under `skipped`
    Skip(&'static str),
    /// member of a listed known-finding class: counted under `excluded_known`
    Excluded(&'static str),
    Fail(Fail),
}

pub enum Verdict {
    Pass { nontrivial: bool, class: Option<&'static str> },
    Skip(&'static str),
    Fail(Fail),
}

pub trait PatProp: Sync {
    type P;
    fn prepare(&self, ctx: &RunCtx, n: &Node, pat: &str, st: &mut Stats) -> Prep<Self::P>;
    /// evaluate every char-boundary offset of every text (true) or only once per text (false)
    fn all_offsets(&self) -> bool {
        true
    }
    fn eval(&self, ctx: &RunCtx, p: &Self::P, n: &Node, text: &str, pos: usize) -> Verdict;
    fn extra(&self) -> Value {
        Value::Null
    }
    /// the pattern string handed to the crate for this AST
    fn spell(&self, n: &Node) -> String {
        n.to_pattern()
    }
}

#[derive(Clone, Debug)]
pub struct Found {
    pub node: Node,
    pub text: String,
    pub pos: usize,
    pub fail: Fail,
}

pub fn run_pattern<P: PatProp>(ctx: &RunCtx, prop: &P, n: &Node, texts: &[String], st: &mut Stats, count: bool) -> Option<Found> {
    let pat = prop.spell(n);
    let mut scratch = Stats::default();
    let stp = if count { &mut *st } else { &mut scratch };
    let prep = match prop.prepare(ctx, n, &pat, stp) {
        Prep::Ready(p) => p,
        Prep::Skip(r) => {
            stp.skip(r);
            return None;
        }
        Prep::Excluded(r) => {
            stp.exclude(r);
            return None;
        }
        Prep::Fail(f) => return Some(Found { node: n.clone(), text: String::new(), pos: 0, fail: f }),
    };
    stp.patterns += 1;
    let mut nontriv = 0u32;
    let mut sampled = false;
    for t in texts {
        let mut pos = 0usize;
        loop {
            match prop.eval(ctx, &prep, n, t, pos) {
                Verdict::Pass { nontrivial, class } => {
                    stp.evaluations += 1;
                    if let Some(c) = class {
                        stp.class(c);
                    }
                    if nontrivial {
                        nontriv += 1;
                        if !sampled && stp.samples.len() < 6 && (stp.patterns % 97 == 1 || stp.samples.is_empty()) {
                            sampled = true;
                            stp.sample(json!({"pattern": pat, "text": t, "pos": pos}));
                        }
                    }
                }
                Verdict::Skip(r) => stp.skip(r),
                Verdict::Fail(f) => {
                    stp.evaluations += 1;
                    return Some(Found { node: n.clone(), text: t.clone(), pos, fail: f });
                }
            }
            if !prop.all_offsets() {
                break;
            }
            match t[pos..].chars().next() {
                Some(c) => pos += c.len_utf8(),
                None => break,
            }
        }
    }
    stp.nontrivial_add(hash64(&pat), nontriv);
    None
}

/// Exhaustive exploration of a pattern list (smallest first) on all texts.
pub fn explore<P: PatProp>(ctx: &RunCtx, prop: &P, pats: &[Node], texts: &[String]) -> (Stats, Option<Found>) {
    let stop = AtomicBool::new(false);
    let found: Mutex<Vec<(usize, Found)>> = Mutex::new(vec![]);
    let stats = pats
        .par_iter()
        .enumerate()
        .fold(Stats::default, |mut st, (i, n)| {
            if stop.load(Ordering::Relaxed) {
                return st;
            }
            if let Some(f) = run_pattern(ctx, prop, n, texts, &mut st, true) {
                stop.store(true, Ordering::Relaxed);
                found.lock().unwrap().push((i, f));
            }
            st
        })
        .reduce(Stats::default, |mut a, b| {
            a.merge(b);
            a
        });
    let mut f = found.into_inner().unwrap();
    f.sort_by_key(|(i, f)| (f.node.size(), f.text.len(), *i));
    (stats, f.into_iter().next().map(|(_, f)| f))
}

/// Seeded random exploration: proptest byte vectors decoded into patterns; native shrinking of the
/// byte vector, then the caller applies the AST shrinker.
pub fn explore_random<P: PatProp>(
    ctx: &RunCtx,
    prop: &P,
    label: &str,
    cfg: &RandCfg,
    texts: &[String],
    cases: u64,
    accept: &(dyn Fn(&Node) -> bool + Sync),
) -> (Stats, Option<Found>) {
    explore_random_with(ctx, prop, label, texts, cases, &|bytes| {
        let n = gen::decode_pattern(cfg, bytes);
        if accept(&n) {
            Some(n)
        } else {
            None
        }
    })
}

/// as `explore_random` with a caller supplied byte decoder (None = generated value outside the domain)
pub fn explore_random_with<P: PatProp>(
    ctx: &RunCtx,
    prop: &P,
    label: &str,
    texts: &[String],
    cases: u64,
    decode: &(dyn Fn(&[u8]) -> Option<Node> + Sync),
) -> (Stats, Option<Found>) {
    let shards = rayon::current_num_threads().max(1) as u64;
    let per = (cases + shards - 1) / shards;
    let results: Vec<(Stats, Option<Found>)> = (0..shards)
        .into_par_iter()
        .map(|shard| {
            let config = Config { cases: per as u32, failure_persistence: None, max_shrink_iters: 4096, ..Config::default() };
            let rng = TestRng::from_seed(RngAlgorithm::ChaCha, &ctx.subseed(label, shard));
            let mut runner = TestRunner::new_with_rng(config, rng);
            let stats = RefCell::new(Stats::default());
            let failed = Cell::new(false);
            let strat = proptest::collection::vec(proptest::num::u8::ANY, 0..96);
            let res = runner.run(&strat, |bytes| {
                let n = match decode(&bytes) {
                    Some(n) => n,
                    None => {
                        if !failed.get() {
                            stats.borrow_mut().skip("generator:filtered");
                        }
                        return Ok(());
                    }
                };
                let count = !failed.get();
                let r = run_pattern(ctx, prop, &n, texts, &mut stats.borrow_mut(), count);
                match r {
                    None => Ok(()),
                    Some(f) => {
                        failed.set(true);
                        Err(TestCaseError::fail(f.fail.kind))
                    }
                }
            });
            let found = match res {
                Ok(()) => None,
                Err(TestError::Fail(_, bytes)) => decode(&bytes).and_then(|n| {
                    let mut scratch = Stats::default();
                    run_pattern(ctx, prop, &n, texts, &mut scratch, false)
                }),
                Err(TestError::Abort(r)) => {
                    eprintln!("proptest aborted: {}", r);
                    None
                }
            };
            (stats.into_inner(), found)
        })
        .collect();
    let mut st = Stats::default();
    let mut best: Option<Found> = None;
    for (s, f) in results {
        st.merge(s);
        if let Some(f) = f {
            let better = match &best {
                None => true,
                Some(b) => (f.node.size(), f.text.len()) < (b.node.size(), b.text.len()),
            };
            if better {
                best = Some(f);
            }
        }
    }
    (st, best)
}

// keep the proptest imports used even if a strategy helper is unused
#[allow(dead_code)]
fn _unused<S: Strategy>(s: S, r: &mut TestRunner) {
    let _ = s.new_tree(r).map(|t| t.current());
}

// ---------------------------------------------------------------------------------------------
// shrinking

fn node_candidates(n: &Node) -> Vec<Node> {
    let mut out = Vec::new();
    // replace the whole node by something simpler
    for c in n.children() {
        out.push(c.clone());
    }
    if !matches!(n, Empty | Lit('a')) && n.children().is_empty() {
        out.push(Lit('a'));
        out.push(Empty);
    }
    if !n.children().is_empty() {
        out.push(Empty);
        out.push(Lit('a'));
    }
    match n {
        Concat(v) | Alt(v) => {
            let is_cat = matches!(n, Concat(_));
            for i in 0..v.len() {
                let mut w = v.clone();
                w.remove(i);
                out.push(match (w.len(), is_cat) {
                    (1, _) => w.pop().unwrap(),
                    (_, true) => Concat(w),
                    (_, false) => Alt(w),
                });
            }
        }
        Repeat(c, lo, hi, q) => {
            if *q != Q::Greedy {
                out.push(Repeat(c.clone(), *lo, *hi, Q::Greedy));
            }
            if *lo > 0 {
                out.push(Repeat(c.clone(), lo - 1, *hi, *q));
            }
            match hi {
                Some(h) if *h > 1 && *h > *lo => out.push(Repeat(c.clone(), *lo, Some(h - 1), *q)),
                None => out.push(Repeat(c.clone(), *lo, Some((*lo).max(1) + 1), *q)),
                _ => {}
            }
        }
        Lit(c) if *c != 'a' => out.push(Lit('a')),
        Class(..) | Perl(_) | Any | AnyNl => out.push(Lit('a')),
        _ => {}
    }
    // recurse: replace one child by one of its candidates
    let kids = n.children();
    for (i, k) in kids.iter().enumerate() {
        for cand in node_candidates(k) {
            let mut m = n.clone();
            {
                let mut slots = m.children_mut();
                *slots[i] = cand;
            }
            // keep structural invariants of the printer/parser: quantifier targets must be repeatable
            if let Repeat(c, ..) = &m {
                if !c.repeatable() {
                    continue;
                }
            }
            out.push(m);
        }
    }
    out
}

/// Greedy shrinker: `still_fails(node, text, pos)` must return true iff the candidate fails the same
/// property with the same failure kind.
pub fn shrink(found: Found, still_fails: &dyn Fn(&Node, &str, usize) -> bool) -> Found {
    let mut cur = found;
    let mut budget = 4000usize;
    loop {
        let mut improved = false;
        // text: delete characters
        let chars: Vec<char> = cur.text.chars().collect();
        for i in 0..chars.len() {
            if budget == 0 {
                return cur;
            }
            budget -= 1;
            let t: String = chars.iter().enumerate().filter(|(j, _)| *j != i).map(|(_, c)| *c).collect();
            let mut pos = cur.pos.min(t.len());
            while !t.is_char_boundary(pos) {
                pos -= 1;
            }
            if still_fails(&cur.node, &t, pos) {
                cur.text = t;
                cur.pos = pos;
                improved = true;
                break;
            }
        }
        if improved {
            continue;
        }
        // pos: lower
        if cur.pos > 0 {
            let mut p = cur.pos - 1;
            while !cur.text.is_char_boundary(p) {
                p -= 1;
            }
            budget = budget.saturating_sub(1);
            if still_fails(&cur.node, &cur.text, p) {
                cur.pos = p;
                continue;
            }
        }
        // node
        let mut cands = node_candidates(&cur.node);
        cands.sort_by_key(|c| c.size());
        cands.dedup();
        for cand in cands {
            if cand.size() > cur.node.size() || cand == cur.node {
                continue;
            }
            if cand.size() == cur.node.size() && cand.to_pattern().len() >= cur.node.to_pattern().len() {
                continue;
            }
            if budget == 0 {
                return cur;
            }
            budget -= 1;
            if still_fails(&cand, &cur.text, cur.pos) {
                cur.node = cand;
                improved = true;
                break;
            }
        }
        if !improved {
            return cur;
        }
    }
}

/// Shrink a found failure of a pattern property and turn it into a violation.
pub fn finish<P: PatProp>(ctx: &RunCtx, prop: &P, found: Found) -> Violation {
    let kind = found.fail.kind.clone();
    let check = |n: &Node, t: &str, pos: usize| -> Option<Fail> {
        let pat = prop.spell(n);
        let mut st = Stats::default();
        match prop.prepare(ctx, n, &pat, &mut st) {
            Prep::Ready(p) => {
                if !t.is_char_boundary(pos) || (!prop.all_offsets() && pos != 0) {
                    return None;
                }
                match prop.eval(ctx, &p, n, t, pos) {
                    Verdict::Fail(f) => Some(f),
                    _ => None,
                }
            }
            Prep::Fail(f) => Some(f),
            _ => None,
        }
    };
    let small = shrink(found, &|n, t, pos| matches!(check(n, t, pos), Some(f) if f.kind == kind));
    let fail = check(&small.node, &small.text, small.pos).unwrap_or(small.fail.clone());
    Violation { case: pat_case(&prop.spell(&small.node), &small.node, &small.text, small.pos, prop.extra()), fail }
}

/// Re-evaluate one saved case of a pattern property (bypasses all generators and exclusions).
pub fn replay_pat<P: PatProp>(ctx: &RunCtx, prop: &P, case: &Value) -> Result<Option<Fail>, String> {
    let n = case_node(case).ok_or("replay case has no ast")?;
    let text = case.get("text").and_then(|t| t.as_str()).unwrap_or("");
    let pos = case.get("pos").and_then(|p| p.as_u64()).unwrap_or(0) as usize;
    let pat = prop.spell(&n);
    let mut st = Stats::default();
    match prop.prepare(ctx, &n, &pat, &mut st) {
        Prep::Ready(p) => Ok(match prop.eval(ctx, &p, &n, text, pos) {
            Verdict::Fail(f) => Some(f),
            _ => None,
        }),
        Prep::Fail(f) => Ok(Some(f)),
        Prep::Skip(r) => Err(format!("case outside the domain: {}", r)),
        Prep::Excluded(r) => Err(format!("case excluded: {}", r)),
    }
}
