//! Harness-owned pattern AST, printer (token based, several spellings) and structural predicates.
//! Independent of the crate's parser.

#[derive(Clone, Copy, Debug, PartialEq, Eq, Hash, PartialOrd, Ord)]
pub enum A {
    StartText,
    EndText,
    StartLine,
    EndLine,
    WordB,
    NotWordB,
    WordStart,
    WordEnd,
    EndZ,
}

#[derive(Clone, Copy, Debug, PartialEq, Eq, Hash, PartialOrd, Ord)]
pub enum Q {
    Greedy,
    Lazy,
    Poss,
}

#[derive(Clone, Debug, PartialEq, Eq, Hash, PartialOrd, Ord)]
pub enum Node {
    Empty,
    Lit(char),
    Any,
    AnyNl,
    Class(bool, Vec<(char, char)>),
    Perl(char),
    Assert(A),
    Concat(Vec<Node>),
    Alt(Vec<Node>),
    Group(Box<Node>),
    Repeat(Box<Node>, u32, Option<u32>, Q),
    /// body, behind, negative
    Look(Box<Node>, bool, bool),
    Atomic(Box<Node>),
    Backref(usize),
    KeepOut,
    ContG,
    CondGroup(usize, Box<Node>, Box<Node>),
    CondExpr(Box<Node>, Box<Node>, Box<Node>),
    GroupExists(usize),
    /// scoped flag group `(?on-off:body)`; flags are letters out of "imsxU"
    Flags(String, String, Box<Node>),
    /// inline flag setting `(?on-off)`, in effect until the end of the enclosing group
    SetFlags(String, String),
    /// one character matched by a pattern in the regex crate's syntax (produced only by the
    /// conversion from the crate's own expression tree: classes, \p{..}, case-insensitive literals);
    /// the special pattern `\n*$` (body of `\Z`) is zero-width
    Raw(String, bool),
}

use Node::*;

pub fn lit_token(c: char) -> String {
    let mut out = String::new();
    if "\\.+*?()|[]{}^$#-".contains(c) {
        out.push('\\');
        out.push(c);
    } else if c == '\n' {
        out.push_str("\\n");
    } else if c == ' ' {
        out.push_str("\\ ");
    } else {
        out.push(c);
    }
    out
}

fn class_char(c: char, out: &mut String) {
    if "\\[]^-&~".contains(c) {
        out.push('\\');
        out.push(c);
    } else if c == '\n' {
        out.push_str("\\n");
    } else {
        out.push(c);
    }
}

/// How groups and back-references are spelled.
#[derive(Clone, Debug, Default)]
pub struct PrintOpts {
    /// name of group i (index 1-based => names[i-1]); None = unnamed
    pub names: Vec<Option<String>>,
    /// 0 = `(?<n>`, 1 = `(?P<n>`
    pub name_style: u8,
    /// 0 = `\N` (or `\k<name>` when the group is named), 1 = `\k<name|N>`, 2 = `(?P=name)` when named
    pub backref_style: u8,
    /// print `(?(c)yes)` without the `|` whenever the no-branch is empty, also when yes is an alternation
    pub cond_omit_empty_no: bool,
    /// literal spelling: 0 plain, 1 `\xHH` (code points < 256), 2 `\x{H}`, 3 `\uHHHH`, 4 `\UHHHHHHHH`, 5 cycle through all
    pub lit_style: u8,
    /// `^` as `\A`, `$` as `\z`
    pub anchors_az: bool,
    /// `^` as `(?-m:^)`, `$` as `(?-m:$)` (the same thing as `\A` / `\z` under every flag setting)
    pub anchors_negm: bool,
    /// possessive quantifier `X*+` as atomic group `(?>X*)`
    pub poss_as_atomic: bool,
    /// 0 = default; 1 = back-references `\k'N'` and group tests `(?('N')..)` with quote delimiters;
    /// 2 = relative numbers with quote delimiters `\k'-n'`, `(?('-n')..)`; 3 = relative group tests `(?(<-n>)..)` (references as `\k<-n>`)
    pub quote_refs: u8,
    /// redundant non-capturing groups: the members of every concatenation are wrapped in `(?:..)` two at a time
    pub redundant_groups: bool,
    /// atomic group around a quantified atom, `(?>X*)` / `(?>X*?)`, as the possessive suffix `X*+` / `X*?+`
    pub atomic_as_poss: bool,
    /// newline literal as a raw newline character instead of `\n`
    pub raw_newline: bool,
    /// back-references as relative `\k<-n>`
    pub rel_backrefs: bool,
    /// scoped flag groups `(?s:.)`, `(?m:^)`, `(?i:X)` as `(?:(?s).)` etc.
    pub flags_inline: bool,
    /// `{n,m}` as `{ n , m }` (only valid under `(?x)`)
    pub spaced_braces: bool,
    /// `[0-9A-Fa-f]` as `\h`, its negation as `\H`, U+001B as `\e`
    pub short_escapes: bool,
    /// a scoped flag group that is the root or a direct member of the root concatenation, `(?on:X)`, as
    /// `(?on)X(?-on)` (only used when no flag is set outside)
    pub flags_toggle: bool,
}

impl PrintOpts {
    fn name(&self, g: usize) -> Option<&str> {
        self.names.get(g.wrapping_sub(1)).and_then(|n| n.as_deref())
    }
    fn any_named(&self) -> bool {
        self.names.iter().any(|n| n.is_some())
    }
}

struct P<'o> {
    toks: Vec<String>,
    opts: &'o PrintOpts,
    next_group: usize,
    nlit: usize,
    depth: usize,
}

impl<'o> P<'o> {
    fn t(&mut self, s: &str) {
        self.toks.push(s.to_string());
    }
    fn backref(&mut self, g: usize) {
        let named = self.opts.any_named();
        match self.opts.quote_refs {
            1 => {
                self.toks.push(format!("\\k'{}'", g));
                return;
            }
            2 if self.next_group >= g => {
                self.toks.push(format!("\\k'-{}'", self.next_group - g + 1));
                return;
            }
            3 if self.next_group >= g => {
                self.toks.push(format!("\\k<-{}>", self.next_group - g + 1));
                return;
            }
            _ => {}
        }
        if self.opts.rel_backrefs && self.next_group >= g {
            self.toks.push(format!("\\k<-{}>", self.next_group - g + 1));
            return;
        }
        let tok = match (self.opts.name(g), self.opts.backref_style) {
            (Some(n), 2) => format!("(?P={})", n),
            (Some(n), _) => format!("\\k<{}>", n),
            (None, 1) => format!("\\k<{}>", g),
            // numbered references are rejected once a named group exists; \k<N> is accepted
            (None, _) if named => format!("\\k<{}>", g),
            (None, _) => format!("\\{}", g),
        };
        self.toks.push(tok);
    }
    fn cond_ref(&mut self, g: usize) -> String {
        match self.opts.quote_refs {
            1 => return format!("'{}'", g),
            2 if self.next_group >= g => return format!("'-{}'", self.next_group - g + 1),
            3 if self.next_group >= g => return format!("<-{}>", self.next_group - g + 1),
            _ => {}
        }
        match self.opts.name(g) {
            Some(n) => format!("<{}>", n),
            None if self.opts.any_named() => format!("<{}>", g),
            None => format!("{}", g),
        }
    }
    // prec: 0 = alt allowed, 1 = concat allowed, 2 = repeat allowed, 3 = atoms only
    fn print(&mut self, n: &Node, prec: u8) {
        // depth 0 = root, 1 = direct member of the root concatenation, anything else deeper
        let my_depth = self.depth;
        self.depth = match (my_depth, n) {
            (0, Concat(_)) => 1,
            _ => 9,
        };
        self.print_node(n, prec, my_depth);
        self.depth = my_depth;
    }

    fn print_node(&mut self, n: &Node, prec: u8, my_depth: usize) {
        let saved = self.depth;
        self.depth = my_depth;
        let toggle = matches!(n, Flags(on, off, _) if self.opts.flags_toggle && my_depth <= 1 && !on.is_empty() && off.is_empty());
        self.depth = saved;
        if toggle {
            if let Flags(on, _, c) = n {
                self.toks.push(format!("(?{})", on));
                self.print(c, 1);
                self.toks.push(format!("(?-{})", on));
                return;
            }
        }
        match n {
            Empty => {
                if prec >= 2 {
                    self.t("(?:");
                    self.t(")");
                }
            }
            Lit('\u{1b}') if self.opts.short_escapes => self.t("\\e"),
            Lit(c) => {
                self.nlit += 1;
                let style = if self.opts.lit_style == 5 { (self.nlit % 5) as u8 } else { self.opts.lit_style };
                let cp = *c as u32;
                let tok = match style {
                    1 if cp < 256 => format!("\\x{:02X}", cp),
                    2 => format!("\\x{{{:X}}}", cp),
                    3 if cp < 0x10000 => format!("\\u{:04x}", cp),
                    4 => format!("\\U{:08X}", cp),
                    _ if *c == '\n' && self.opts.raw_newline => "\n".to_string(),
                    _ => lit_token(*c),
                };
                self.toks.push(tok)
            }
            Any => self.t("."),
            AnyNl => {
                if self.opts.flags_inline {
                    self.t("(?:");
                    self.t("(?s)");
                } else {
                    self.t("(?s:");
                }
                self.t(".");
                self.t(")");
            }
            Class(neg, rs) if self.opts.short_escapes && *rs == [('0', '9'), ('A', 'F'), ('a', 'f')] => {
                self.t(if *neg { "\\H" } else { "\\h" });
            }
            Class(neg, rs) => {
                let mut s = String::from("[");
                if *neg {
                    s.push('^');
                }
                for (a, b) in rs {
                    class_char(*a, &mut s);
                    if a != b {
                        s.push('-');
                        class_char(*b, &mut s);
                    }
                }
                s.push(']');
                self.toks.push(s);
            }
            Perl(c) => self.toks.push(format!("\\{}", c)),
            Assert(a) => match a {
                A::StartText => self.t(if self.opts.anchors_az { "\\A" } else if self.opts.anchors_negm { "(?-m:^)" } else { "^" }),
                A::EndText => self.t(if self.opts.anchors_az { "\\z" } else if self.opts.anchors_negm { "(?-m:$)" } else { "$" }),
                A::StartLine | A::EndLine => {
                    if self.opts.flags_inline {
                        self.t("(?:");
                        self.t("(?m)");
                    } else {
                        self.t("(?m:");
                    }
                    self.t(if *a == A::StartLine { "^" } else { "$" });
                    self.t(")");
                }
                A::WordB => self.t("\\b"),
                A::NotWordB => self.t("\\B"),
                A::WordStart => self.t("\\<"),
                A::WordEnd => self.t("\\>"),
                A::EndZ => self.t("\\Z"),
            },
            Concat(v) if self.opts.redundant_groups && v.len() >= 2 => {
                if prec > 1 {
                    self.t("(?:");
                }
                for chunk in v.chunks(2) {
                    // inline flag settings must stay where they are (they act on the rest of the enclosing group)
                    if chunk.iter().any(|c| matches!(c, SetFlags(..))) {
                        for c in chunk {
                            self.print(c, 2);
                        }
                        continue;
                    }
                    self.t("(?:");
                    for c in chunk {
                        self.print(c, 2);
                    }
                    self.t(")");
                }
                if prec > 1 {
                    self.t(")");
                }
            }
            Concat(v) => {
                if prec > 1 {
                    self.t("(?:");
                }
                for c in v {
                    self.print(c, 2);
                }
                if prec > 1 {
                    self.t(")");
                }
            }
            Alt(v) => {
                if prec > 0 {
                    self.t("(?:");
                }
                for (i, c) in v.iter().enumerate() {
                    if i > 0 {
                        self.t("|");
                    }
                    self.print(c, 1);
                }
                if prec > 0 {
                    self.t(")");
                }
            }
            Group(c) => {
                self.next_group += 1;
                let g = self.next_group;
                match self.opts.name(g) {
                    Some(name) => {
                        let open = if self.opts.name_style == 1 { "(?P<" } else { "(?<" };
                        self.toks.push(format!("{}{}>", open, name));
                    }
                    None => self.t("("),
                }
                self.print(c, 0);
                self.t(")");
            }
            Repeat(c, lo, hi, Q::Poss) if self.opts.poss_as_atomic => {
                self.t("(?>");
                self.print(&Repeat(c.clone(), *lo, *hi, Q::Greedy), 0);
                self.t(")");
            }
            Repeat(c, lo, hi, q) => {
                if prec > 2 {
                    self.t("(?:");
                }
                self.print(c, 3);
                let qs = match (lo, hi) {
                    (0, Some(1)) => "?".to_string(),
                    (0, None) => "*".to_string(),
                    (1, None) => "+".to_string(),
                    (lo, Some(hi)) if lo == hi => format!("{{{}}}", lo),
                    (lo, Some(hi)) => format!("{{{},{}}}", lo, hi),
                    (lo, None) => format!("{{{},}}", lo),
                };
                let qs = if self.opts.spaced_braces && qs.starts_with('{') { qs.replace('{', "{ ").replace(',', " , ").replace('}', " }") } else { qs };
                let suffix = match q {
                    Q::Greedy => "",
                    Q::Lazy => "?",
                    Q::Poss => "+",
                };
                // quantifier and its suffix are separate tokens: whitespace is allowed between them in (?x)
                self.toks.push(qs);
                if !suffix.is_empty() {
                    self.t(suffix);
                }
                if prec > 2 {
                    self.t(")");
                }
            }
            Look(c, behind, neg) => {
                self.t(match (behind, neg) {
                    (false, false) => "(?=",
                    (false, true) => "(?!",
                    (true, false) => "(?<=",
                    (true, true) => "(?<!",
                });
                self.print(c, 0);
                self.t(")");
            }
            Atomic(c) if self.opts.atomic_as_poss && matches!(&**c, Repeat(_, _, _, Q::Greedy | Q::Lazy)) => {
                if prec > 2 {
                    self.t("(?:");
                }
                self.print(c, 2);
                self.t("+");
                if prec > 2 {
                    self.t(")");
                }
            }
            Atomic(c) => {
                self.t("(?>");
                self.print(c, 0);
                self.t(")");
            }
            Backref(g) => self.backref(*g),
            KeepOut => self.t("\\K"),
            ContG => self.t("\\G"),
            CondGroup(g, y, no) => {
                let r = self.cond_ref(*g);
                // the `)` that closes the group test is a token of its own: trivia may stand in front of it
                self.toks.push(format!("(?({}", r));
                self.t(")");
                self.print(y, 1);
                // always print the `|` when the yes-branch is an alternation-free but group-wrapped
                // alternation could be mis-split (finding F13): an explicit `|` keeps the generator
                // independent of that defect
                // two empty branches are spelled `(?(1)|)`: `(?(1))` is the group-exists test
                if **no != Empty || **y == Empty || (contains_alt_shallow(y) && !self.opts.cond_omit_empty_no) {
                    self.t("|");
                    self.print(no, 1);
                }
                self.t(")");
            }
            CondExpr(c, y, no) => {
                self.t("(?(");
                self.print(c, 0);
                self.t(")");
                self.print(y, 1);
                if **no != Empty || **y == Empty || (contains_alt_shallow(y) && !self.opts.cond_omit_empty_no) {
                    self.t("|");
                    self.print(no, 1);
                }
                self.t(")");
            }
            GroupExists(g) => {
                let r = self.cond_ref(*g);
                // two tokens: white space (free-spacing mode) and comments may stand between the test and the `)`
                self.toks.push(format!("(?({}", r));
                self.t(")");
                self.t(")");
            }
            Raw(pat, ci) => {
                if *ci {
                    self.toks.push(format!("(?i:{})", pat));
                } else {
                    self.toks.push(pat.clone());
                }
            }
            SetFlags(on, off) => {
                let mut s = format!("(?{}", on);
                if !off.is_empty() {
                    s.push('-');
                    s.push_str(off);
                }
                s.push(')');
                self.toks.push(s);
            }
            Flags(on, off, c) => {
                let mut s = format!("(?{}", on);
                if !off.is_empty() {
                    s.push('-');
                    s.push_str(off);
                }
                if self.opts.flags_inline {
                    s.push(')');
                    self.t("(?:");
                } else {
                    s.push(':');
                }
                self.toks.push(s);
                self.print(c, 0);
                self.t(")");
            }
        }
    }
}

/// the yes-branch prints with precedence 1, so an Alt gets wrapped in `(?:..)`; the crate's parser
/// looks *through* that wrapper (F13). True if the printed yes-branch would be exactly such a wrapper.
fn contains_alt_shallow(y: &Node) -> bool {
    matches!(y, Alt(_))
}

impl Node {
    pub fn size(&self) -> usize {
        1 + match self {
            Concat(v) | Alt(v) => v.iter().map(|n| n.size()).sum(),
            Group(c) | Repeat(c, ..) | Look(c, ..) | Atomic(c) | Flags(_, _, c) => c.size(),
            CondGroup(_, y, n) => y.size() + n.size(),
            CondExpr(c, y, n) => c.size() + y.size() + n.size(),
            _ => 0,
        }
    }

    pub fn tokens(&self, opts: &PrintOpts) -> Vec<String> {
        let mut p = P { toks: Vec::new(), opts, next_group: 0, nlit: 0, depth: 0 };
        p.print(self, 0);
        p.toks
    }

    pub fn to_pattern(&self) -> String {
        self.tokens(&PrintOpts::default()).concat()
    }

    pub fn to_pattern_with(&self, opts: &PrintOpts) -> String {
        self.tokens(opts).concat()
    }

    pub fn children(&self) -> Vec<&Node> {
        match self {
            Concat(v) | Alt(v) => v.iter().collect(),
            Group(c) | Repeat(c, ..) | Look(c, ..) | Atomic(c) | Flags(_, _, c) => vec![&**c],
            CondGroup(_, y, n) => vec![&**y, &**n],
            CondExpr(c, y, n) => vec![&**c, &**y, &**n],
            _ => vec![],
        }
    }

    pub fn children_mut(&mut self) -> Vec<&mut Node> {
        match self {
            Concat(v) | Alt(v) => v.iter_mut().collect(),
            Group(c) | Repeat(c, ..) | Look(c, ..) | Atomic(c) | Flags(_, _, c) => vec![&mut **c],
            CondGroup(_, y, n) => vec![&mut **y, &mut **n],
            CondExpr(c, y, n) => vec![&mut **c, &mut **y, &mut **n],
            _ => vec![],
        }
    }

    /// number of capture groups (excluding group 0)
    pub fn n_groups(&self) -> usize {
        let own = matches!(self, Group(_)) as usize;
        own + self.children().iter().map(|c| c.n_groups()).sum::<usize>()
    }

    /// conservative: may match the empty string
    pub fn nullable(&self) -> bool {
        match self {
            Empty | Assert(_) | Look(..) | KeepOut | ContG | GroupExists(_) | Backref(_) | SetFlags(..) => true,
            Lit(_) | Any | AnyNl | Class(..) | Perl(_) => false,
            Raw(p, _) => p == "\\n*$",
            Concat(v) => v.iter().all(|n| n.nullable()),
            Alt(v) => v.iter().any(|n| n.nullable()),
            Group(c) | Atomic(c) | Flags(_, _, c) => c.nullable(),
            Repeat(c, lo, _, _) => *lo == 0 || c.nullable(),
            CondGroup(_, y, n) => y.nullable() || n.nullable(),
            CondExpr(c, y, n) => (c.nullable() && y.nullable()) || n.nullable(),
        }
    }

    pub fn any<F: Fn(&Node) -> bool + Copy>(&self, f: F) -> bool {
        f(self) || self.children().iter().any(|c| c.any(f))
    }

    /// F1 class: the tree contains an unbounded repeat whose body may match the empty string
    pub fn has_f1(&self) -> bool {
        self.any(|x| matches!(x, Repeat(c, _, None, _) if c.nullable()))
    }

    /// F4 class: a conditional inside an atomic context (atomic group, possessive repeat,
    /// positive look-around, another conditional's condition) leaks an explicit-stack entry
    pub fn has_cond_leak(&self) -> bool {
        fn has_cond(n: &Node) -> bool {
            n.any(|x| matches!(x, CondGroup(..) | CondExpr(..)))
        }
        match self {
            Atomic(c) | Look(c, _, false) => has_cond(c) || c.has_cond_leak(),
            Repeat(c, _, _, Q::Poss) => has_cond(c) || c.has_cond_leak(),
            CondExpr(c, y, n) => has_cond(c) || c.has_cond_leak() || y.has_cond_leak() || n.has_cond_leak(),
            _ => self.children().iter().any(|c| c.has_cond_leak()),
        }
    }

    /// F14 class: a condition that is exactly a back-reference is taken as a group-exists test
    pub fn has_bare_backref_cond(&self) -> bool {
        self.any(|x| matches!(x, CondExpr(c, ..) if matches!(**c, Backref(_))))
    }

    pub fn has_cond(&self) -> bool {
        self.any(|x| matches!(x, CondGroup(..) | CondExpr(..) | GroupExists(_)))
    }

    /// feature tags used for class histograms
    pub fn features(&self) -> Vec<&'static str> {
        let mut v = vec![];
        if self.any(|x| matches!(x, Look(_, false, false))) {
            v.push("la+");
        }
        if self.any(|x| matches!(x, Look(_, false, true))) {
            v.push("la-");
        }
        if self.any(|x| matches!(x, Look(_, true, false))) {
            v.push("lb+");
        }
        if self.any(|x| matches!(x, Look(_, true, true))) {
            v.push("lb-");
        }
        if self.any(|x| matches!(x, Backref(_))) {
            v.push("bref");
        }
        if self.any(|x| matches!(x, Atomic(_) | Repeat(_, _, _, Q::Poss))) {
            v.push("atomic");
        }
        if self.any(|x| matches!(x, KeepOut)) {
            v.push("\\K");
        }
        if self.any(|x| matches!(x, ContG)) {
            v.push("\\G");
        }
        if self.has_cond() {
            v.push("cond");
        }
        if self.any(|x| matches!(x, Assert(A::WordB | A::NotWordB | A::WordStart | A::WordEnd))) {
            v.push("\\b");
        }
        if self.any(|x| matches!(x, Repeat(..))) {
            v.push("rep");
        }
        if self.any(|x| matches!(x, Group(_))) {
            v.push("grp");
        }
        v
    }

    /// back-references / conditions refer only to groups that are closed before the reference
    /// (print order); with `allow_open` a reference from inside its own group is accepted too.
    pub fn refs_valid(&self, allow_open: bool) -> bool {
        fn walk(n: &Node, next: &mut usize, closed: &mut Vec<usize>, open: &mut Vec<usize>, allow_open: bool) -> bool {
            let ok = |g: &usize, closed: &Vec<usize>, open: &Vec<usize>| closed.contains(g) || (allow_open && open.contains(g));
            match n {
                Group(c) => {
                    let idx = *next;
                    *next += 1;
                    open.push(idx);
                    if !walk(c, next, closed, open, allow_open) {
                        return false;
                    }
                    open.pop();
                    closed.push(idx);
                    true
                }
                Backref(g) | GroupExists(g) => ok(g, closed, open),
                CondGroup(g, y, no) => ok(g, closed, open) && walk(y, next, closed, open, allow_open) && walk(no, next, closed, open, allow_open),
                _ => n.children().into_iter().all(|c| walk(c, next, closed, open, allow_open)),
            }
        }
        walk(self, &mut 1, &mut vec![], &mut vec![], allow_open)
    }

    /// like `refs_valid(false)` for back-references, but group *conditions* may name any group
    pub fn backrefs_valid(&self) -> bool {
        fn strip(n: &Node) -> Node {
            let mut m = n.clone();
            match &mut m {
                GroupExists(_) => return Empty,
                CondGroup(_, y, no) => return Alt(vec![strip(y), strip(no)]),
                _ => {
                    for c in m.children_mut() {
                        let s = strip(c);
                        *c = s;
                    }
                }
            }
            m
        }
        strip(self).refs_valid(false)
    }

    /// every group index referenced exists somewhere in the pattern (the crate's own requirement
    /// is weaker than refs_valid: the group must have been *opened* before the reference)
    pub fn max_ref(&self) -> usize {
        let mut m = 0;
        fn walk(n: &Node, m: &mut usize) {
            match n {
                Backref(g) | GroupExists(g) | CondGroup(g, ..) => *m = (*m).max(*g),
                _ => {}
            }
            for c in n.children() {
                walk(c, m);
            }
        }
        walk(self, &mut m);
        m
    }

    /// quantifier targets must be repeatable for the crate's parser
    pub fn repeatable(&self) -> bool {
        !matches!(self, Empty | Assert(_) | Look(..) | SetFlags(..))
    }

    /// Number of characters every match of this expression has, when that follows from the syntax alone
    /// (conservative: None whenever unsure). Independent of the crate's analysis.
    pub fn fixed_char_len(&self) -> Option<usize> {
        match self {
            Empty | Assert(_) | KeepOut | ContG | Look(..) | GroupExists(_) | SetFlags(..) => Some(0),
            Lit(_) | Any | AnyNl | Class(..) | Perl(_) => Some(1),
            Raw(p, _) => Some(if p == "\\n*$" { 0 } else { 1 }),
            Concat(v) => v.iter().map(|c| c.fixed_char_len()).sum(),
            Alt(v) => {
                let first = v.first()?.fixed_char_len()?;
                if v.iter().all(|c| c.fixed_char_len() == Some(first)) {
                    Some(first)
                } else {
                    None
                }
            }
            Group(c) | Atomic(c) | Flags(_, _, c) => c.fixed_char_len(),
            Repeat(c, lo, Some(hi), _) if lo == hi => Some(c.fixed_char_len()? * *lo as usize),
            Repeat(..) | Backref(_) => None,
            CondGroup(_, y, no) => {
                let a = y.fixed_char_len()?;
                if no.fixed_char_len() == Some(a) {
                    Some(a)
                } else {
                    None
                }
            }
            CondExpr(c, y, no) => {
                let a = c.fixed_char_len()? + y.fixed_char_len()?;
                if no.fixed_char_len() == Some(a) {
                    Some(a)
                } else {
                    None
                }
            }
        }
    }

    /// every look-behind body (each alternative of a top-level alternation) has a fixed length by its syntax alone
    pub fn all_lookbehinds_syntactically_fixed(&self) -> bool {
        let here = match self {
            Look(b, true, _) => {
                let mut body: &Node = b;
                while let Flags(_, _, c) = body {
                    body = c;
                }
                match body {
                    Alt(v) => v.iter().all(|a| a.fixed_char_len().is_some()),
                    other => other.fixed_char_len().is_some(),
                }
            }
            _ => true,
        };
        here && self.children().iter().all(|c| c.all_lookbehinds_syntactically_fixed())
    }

    /// F25 class: a counted repeat (upper bound >= 2) over a body that can match the empty string, nested inside
    /// another repeat that can iterate at least twice: the VM retries every number of empty iterations on every level
    pub fn has_nested_counted_nullable_repeat(&self) -> bool {
        fn walk(n: &Node, inside: bool) -> bool {
            match n {
                Repeat(c, _, hi, _) => {
                    let multi = hi.map_or(true, |h| h >= 2);
                    if inside && multi && hi.is_some() && c.nullable() {
                        return true;
                    }
                    walk(c, inside || multi)
                }
                _ => n.children().iter().any(|c| walk(c, inside)),
            }
        }
        walk(self, false)
    }

    /// F23 class: a bracketed class containing unescaped white space or `#` while the free-spacing flag `x` is
    /// switched on somewhere in the pattern (the crate keeps class contents verbatim, the regex crate skips white
    /// space and comments inside classes too)
    pub fn has_spaced_class_under_x(&self) -> bool {
        let x_on = self.any(|n| matches!(n, Flags(on, _, _) | SetFlags(on, _) if on.contains('x')));
        x_on && self.any(|n| match n {
            Raw(s, _) if s.starts_with('[') => {
                let mut prev_bs = false;
                s.chars().any(|c| {
                    let hit = !prev_bs && (c == ' ' || c == '\t' || c == '\n' || c == '\r' || c == '#');
                    prev_bs = c == '\\' && !prev_bs;
                    hit
                })
            }
            _ => false,
        })
    }

    /// F5 class: an inline flag setting whose nearest enclosing parenthesis is a capturing group, an
    /// atomic group, a look-around or a conditional (the crate restores flags only at the end of
    /// `(?flags:..)` / `(?:..)` groups, so such a setting leaks into the rest of the pattern)
    pub fn has_leaky_inline_flag(&self) -> bool {
        fn direct(n: &Node) -> bool {
            // does the body of a paren-opening construct contain a SetFlags not shielded by a printed (?: ... )?
            match n {
                SetFlags(..) => true,
                Concat(v) | Alt(v) => v.iter().any(|c| match c {
                    SetFlags(..) => true,
                    // an Alt directly inside a Concat is printed with its own (?:..), a Concat inside an Alt is not
                    Concat(_) => direct(c),
                    _ => false,
                }),
                _ => false,
            }
        }
        match self {
            Group(c) | Atomic(c) | Look(c, ..) => direct(c) || c.has_leaky_inline_flag(),
            CondGroup(_, y, no) => direct(y) || direct(no) || y.has_leaky_inline_flag() || no.has_leaky_inline_flag(),
            CondExpr(c, y, no) => direct(c) || direct(y) || direct(no) || c.has_leaky_inline_flag() || y.has_leaky_inline_flag() || no.has_leaky_inline_flag(),
            _ => self.children().iter().any(|c| c.has_leaky_inline_flag()),
        }
    }
}

#[cfg(test)]
mod tests {
    use super::*;
    #[test]
    fn print_basic() {
        let n = Concat(vec![Group(Box::new(Alt(vec![Lit('a'), Concat(vec![Lit('a'), Lit('b')])]))), Backref(1), Lit('c')]);
        assert_eq!(n.to_pattern(), "(a|ab)\\1c");
        let r = Repeat(Box::new(Concat(vec![Lit('a'), Lit('b')])), 2, Some(3), Q::Lazy);
        assert_eq!(r.to_pattern(), "(?:ab){2,3}?");
        let c = CondExpr(Box::new(Lit('a')), Box::new(Alt(vec![Lit('b'), Lit('c')])), Box::new(Empty));
        assert_eq!(c.to_pattern(), "(?(a)(?:b|c)|)");
    }
}
