//! Counting allocator: per-thread current / peak / cumulative heap bytes (deterministic stand-in for
//! "memory and time proportional to the pattern" in C06).
use std::alloc::{GlobalAlloc, Layout, System};
use std::cell::Cell;

pub struct Counting;

thread_local! {
    static CUR: Cell<usize> = const { Cell::new(0) };
    static PEAK: Cell<usize> = const { Cell::new(0) };
    static TOTAL: Cell<usize> = const { Cell::new(0) };
    static LARGEST: Cell<usize> = const { Cell::new(0) };
    /// budgets enforced during `measure_with_budget` (0 = none): live bytes above the start level, cumulative bytes
    static BUDGET_PEAK: Cell<usize> = const { Cell::new(0) };
    static BUDGET_TOTAL: Cell<usize> = const { Cell::new(0) };
    static START: Cell<usize> = const { Cell::new(0) };
}

/// true if the request must be refused: the allocation then fails, Rust aborts the process and the
/// parent of the worker process pinpoints the input (a runaway allocation never finishes otherwise)
fn over_budget(size: usize) -> bool {
    let peak = BUDGET_PEAK.try_with(|b| b.get()).unwrap_or(0);
    if peak != 0 {
        let cur = CUR.try_with(|c| c.get()).unwrap_or(0);
        let start = START.try_with(|c| c.get()).unwrap_or(0);
        if cur.saturating_sub(start).saturating_add(size) > peak {
            return true;
        }
    }
    let total = BUDGET_TOTAL.try_with(|b| b.get()).unwrap_or(0);
    if total != 0 && TOTAL.try_with(|t| t.get()).unwrap_or(0).saturating_add(size) > total {
        return true;
    }
    false
}

fn on_alloc(size: usize) {
    let _ = CUR.try_with(|c| {
        let v = c.get().saturating_add(size);
        c.set(v);
        let _ = PEAK.try_with(|p| {
            if v > p.get() {
                p.set(v)
            }
        });
    });
    let _ = TOTAL.try_with(|t| t.set(t.get().saturating_add(size)));
    let _ = LARGEST.try_with(|l| {
        if size > l.get() {
            l.set(size)
        }
    });
}

fn on_free(size: usize) {
    let _ = CUR.try_with(|c| c.set(c.get().saturating_sub(size)));
}

unsafe impl GlobalAlloc for Counting {
    unsafe fn alloc(&self, layout: Layout) -> *mut u8 {
        if over_budget(layout.size()) {
            return std::ptr::null_mut();
        }
        let p = System.alloc(layout);
        if !p.is_null() {
            on_alloc(layout.size());
        }
        p
    }
    unsafe fn dealloc(&self, ptr: *mut u8, layout: Layout) {
        System.dealloc(ptr, layout);
        on_free(layout.size());
    }
    unsafe fn alloc_zeroed(&self, layout: Layout) -> *mut u8 {
        if over_budget(layout.size()) {
            return std::ptr::null_mut();
        }
        let p = System.alloc_zeroed(layout);
        if !p.is_null() {
            on_alloc(layout.size());
        }
        p
    }
    unsafe fn realloc(&self, ptr: *mut u8, layout: Layout, new_size: usize) -> *mut u8 {
        if new_size > layout.size() && over_budget(new_size - layout.size()) {
            return std::ptr::null_mut();
        }
        let p = System.realloc(ptr, layout, new_size);
        if !p.is_null() {
            on_free(layout.size());
            on_alloc(new_size);
        }
        p
    }
}

#[derive(Clone, Copy, Debug, Default)]
pub struct Usage {
    pub peak_over_start: usize,
    pub total: usize,
    pub largest: usize,
}

/// Run `f` and report the heap usage of the current thread during the call.
pub fn measure<T>(f: impl FnOnce() -> T) -> (T, Usage) {
    let start = CUR.with(|c| c.get());
    PEAK.with(|p| p.set(start));
    TOTAL.with(|t| t.set(0));
    LARGEST.with(|l| l.set(0));
    let r = f();
    let u = Usage { peak_over_start: PEAK.with(|p| p.get()).saturating_sub(start), total: TOTAL.with(|t| t.get()), largest: LARGEST.with(|l| l.get()) };
    (r, u)
}

/// As `measure`, but allocations beyond the budgets fail (which aborts the process): only for use
/// in worker processes whose parent handles the crash.
pub fn measure_with_budget<T>(peak: usize, total: usize, f: impl FnOnce() -> T) -> (T, Usage) {
    START.with(|s| s.set(CUR.with(|c| c.get())));
    BUDGET_PEAK.with(|b| b.set(peak));
    BUDGET_TOTAL.with(|b| b.set(total));
    let r = measure(f);
    BUDGET_PEAK.with(|b| b.set(0));
    BUDGET_TOTAL.with(|b| b.set(0));
    r
}
