//! Counting allocator: per-thread current / peak / cumulative heap bytes (deterministic stand-in for
//! "memory and time proportional to the pattern" in C06).
use std::alloc::{GlobalAlloc, Layout, System};
use std::cell::Cell;

pub struct Counting;

thread_local! {
    static CUR: Cell<usize> = const { Cell::new(0) };
    static PEAK: Cell<usize> = const { Cell::new(0) };
    static TOTAL: Cell<usize> = const { Cell::new(0) };
    static LARGEST: Cell<usize> = const { Cell::new(0) };
}

fn on_alloc(size: usize) {
    let _ = CUR.try_with(|c| {
        let v = c.get().saturating_add(size);
        c.set(v);
        let _ = PEAK.try_with(|p| {
            if v > p.get() {
                p.set(v)
            }
        });
    });
    let _ = TOTAL.try_with(|t| t.set(t.get().saturating_add(size)));
    let _ = LARGEST.try_with(|l| {
        if size > l.get() {
            l.set(size)
        }
    });
}

fn on_free(size: usize) {
    let _ = CUR.try_with(|c| c.set(c.get().saturating_sub(size)));
}

unsafe impl GlobalAlloc for Counting {
    unsafe fn alloc(&self, layout: Layout) -> *mut u8 {
        let p = System.alloc(layout);
        if !p.is_null() {
            on_alloc(layout.size());
        }
        p
    }
    unsafe fn dealloc(&self, ptr: *mut u8, layout: Layout) {
        System.dealloc(ptr, layout);
        on_free(layout.size());
    }
    unsafe fn alloc_zeroed(&self, layout: Layout) -> *mut u8 {
        let p = System.alloc_zeroed(layout);
        if !p.is_null() {
            on_alloc(layout.size());
        }
        p
    }
    unsafe fn realloc(&self, ptr: *mut u8, layout: Layout, new_size: usize) -> *mut u8 {
        let p = System.realloc(ptr, layout, new_size);
        if !p.is_null() {
            on_free(layout.size());
            on_alloc(new_size);
        }
        p
    }
}

#[derive(Clone, Copy, Debug, Default)]
pub struct Usage {
    pub peak_over_start: usize,
    pub total: usize,
    pub largest: usize,
}

/// Run `f` and report the heap usage of the current thread during the call.
pub fn measure<T>(f: impl FnOnce() -> T) -> (T, Usage) {
    let start = CUR.with(|c| c.get());
    PEAK.with(|p| p.set(start));
    TOTAL.with(|t| t.set(0));
    LARGEST.with(|l| l.set(0));
    let r = f();
    let u = Usage { peak_over_start: PEAK.with(|p| p.get()).saturating_sub(start), total: TOTAL.with(|t| t.get()), largest: LARGEST.with(|l| l.get()) };
    (r, u)
}
