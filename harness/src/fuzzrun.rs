//! Coverage-guided campaigns (cargo-fuzz / libFuzzer) for the thorough tiers: build the fuzz crate
//! against /repo's working tree, run 16 independent jobs with fixed -runs / -seed from fresh corpus
//! directories, re-check every artifact in-process.
use crate::core::*;
use serde_json::{json, Value};
use std::process::{Command, Stdio};

pub struct Campaign {
    pub runs_done: u64,
    pub artifacts: Vec<std::path::PathBuf>,
    pub evidence: Value,
}

fn fuzz_dir() -> String {
    format!("{}/fuzz", verif_dir())
}

pub fn build(target: &str) -> Result<std::path::PathBuf, String> {
    let out = Command::new("cargo")
        .args(["+nightly", "fuzz", "build", "--fuzz-dir", &fuzz_dir(), target])
        .current_dir(format!("{}/harness", verif_dir()))
        .env("CARGO_NET_OFFLINE", "true")
        .output()
        .map_err(|e| format!("cannot run cargo fuzz: {}", e))?;
    if !out.status.success() {
        let err = String::from_utf8_lossy(&out.stderr);
        return Err(format!("cargo fuzz build failed: {}", err.lines().filter(|l| l.starts_with("error")).take(4).collect::<Vec<_>>().join(" | ")));
    }
    let bin = std::path::PathBuf::from(format!("{}/target/x86_64-unknown-linux-gnu/release/{}", fuzz_dir(), target));
    if !bin.exists() {
        return Err(format!("fuzz binary {:?} not found", bin));
    }
    Ok(bin)
}

/// Run `jobs` independent libFuzzer processes, `runs` executions each.
pub fn campaign(ctx: &RunCtx, target: &str, jobs: u64, runs: u64, max_len: usize, seeds: &[Vec<u8>]) -> Result<Campaign, String> {
    campaign_env(ctx, target, None, jobs, runs, max_len, seeds)
}

/// `prop`: value of FRV_FUZZ_PROP for the generic target `fuzz_prop`
pub fn campaign_env(ctx: &RunCtx, target: &str, prop: Option<&str>, jobs: u64, runs: u64, max_len: usize, seeds: &[Vec<u8>]) -> Result<Campaign, String> {
    let bin = build(target)?;
    let tag = prop.map_or(target.to_string(), |p| format!("{}-{}", target, p));
    let base = format!("{}/corpus/{}-seed{}", fuzz_dir(), tag, ctx.seed);
    let art = format!("{}/artifacts/{}/", fuzz_dir(), tag);
    let _ = std::fs::remove_dir_all(&base);
    let _ = std::fs::remove_dir_all(&art);
    std::fs::create_dir_all(&art).map_err(|e| e.to_string())?;
    let mut children = vec![];
    for j in 0..jobs {
        let dir = format!("{}/job{}", base, j);
        std::fs::create_dir_all(&dir).map_err(|e| e.to_string())?;
        // every second job starts from an empty corpus, the others from the seeds
        if j % 2 == 0 {
            for (i, s) in seeds.iter().enumerate() {
                let _ = std::fs::write(format!("{}/seed{}", dir, i), s);
            }
        }
        let seed = 1 + (hash64(&(ctx.seed, target, j)) % 0x7fff_fff0);
        let mut cmd = Command::new(&bin);
        if let Some(p) = prop {
            cmd.env("FRV_FUZZ_PROP", p);
        }
        let child = cmd
            .arg(&dir)
            .arg(format!("-runs={}", runs))
            .arg(format!("-seed={}", seed))
            .arg("-len_control=0")
            .arg(format!("-max_len={}", max_len))
            .arg(format!("-artifact_prefix={}", art))
            .arg("-rss_limit_mb=6000")
            .arg("-timeout=600")
            .arg("-print_final_stats=1")
            .stdout(Stdio::null())
            // to a file, not a pipe: the jobs are only waited for one after the other, and a full pipe would stall the others
            .stderr(std::fs::File::create(format!("{}/log{}.txt", base, j)).map_err(|e| e.to_string())?)
            .spawn()
            .map_err(|e| format!("spawn fuzz job: {}", e))?;
        children.push((child, format!("{}/log{}.txt", base, j)));
    }
    let mut runs_done = 0u64;
    let mut cov = 0u64;
    let mut ft = 0u64;
    let mut corpus = 0u64;
    let mut failed_jobs = 0;
    for (mut c, logfile) in children {
        let status = c.wait().map_err(|e| e.to_string())?;
        let log = std::fs::read_to_string(&logfile).unwrap_or_default();
        for l in log.lines() {
            if let Some(r) = l.strip_prefix("stat::number_of_executed_units:") {
                runs_done += r.trim().parse::<u64>().unwrap_or(0);
            }
            if l.contains(" cov: ") {
                let grab = |key: &str| -> u64 { l.split(key).nth(1).and_then(|r| r.split_whitespace().next()).and_then(|x| x.parse().ok()).unwrap_or(0) };
                cov = cov.max(grab(" cov: "));
                ft = ft.max(grab(" ft: "));
                corpus = corpus.max(l.split(" corp: ").nth(1).and_then(|r| r.split('/').next()).and_then(|x| x.trim().parse().ok()).unwrap_or(0));
            }
        }
        if !status.success() {
            failed_jobs += 1;
        }
    }
    let all: Vec<std::path::PathBuf> = std::fs::read_dir(&art).map(|rd| rd.filter_map(|e| e.ok()).map(|e| e.path()).collect()).unwrap_or_default();
    // slow-unit-* and timeout-* files are about wall-clock time (never a verdict); crash-*, oom-* and leak-* are re-checked
    let slow = all.iter().filter(|p| p.file_name().and_then(|n| n.to_str()).map_or(false, |n| n.starts_with("slow-unit-") || n.starts_with("timeout-"))).count();
    let mut artifacts: Vec<_> = all.into_iter().filter(|p| p.file_name().and_then(|n| n.to_str()).map_or(false, |n| n.starts_with("crash-") || n.starts_with("oom-") || n.starts_with("leak-"))).collect();
    artifacts.sort();
    let _ = std::fs::remove_dir_all(&base);
    Ok(Campaign {
        runs_done,
        artifacts,
        evidence: json!({"target": tag, "jobs": jobs, "runs_per_job": runs, "executions": runs_done, "max_len": max_len, "seeds": seeds.len(), "edge_coverage": cov, "features": ft, "largest_corpus": corpus, "jobs_ended_abnormally": failed_jobs, "slow_or_timeout_units_ignored": slow}),
    })
}

/// random byte strings as seeds for the byte-decoded targets
pub fn byte_seeds(ctx: &RunCtx, n: usize, len: usize) -> Vec<Vec<u8>> {
    (0..n).map(|i| (0..len).map(|k| (hash64(&(ctx.seed, i, k)) >> 7) as u8).collect()).collect()
}
