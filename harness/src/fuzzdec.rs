//! Decoding of libFuzzer inputs into structured cases, shared by the fuzz targets and by the
//! harness (which re-checks, shrinks and reports artifacts).
use crate::ast::Node;
use crate::core::{Fail, Found, Known, PatProp, Prep, RunCtx, Stats, Tier, Verdict};
use crate::gen::{self, Dec, RandCfg};
use crate::props::api::Safety;
use crate::props::diffref::DiffRef;
use std::sync::OnceLock;

static CTX05: OnceLock<RunCtx> = OnceLock::new();
static CTX02: OnceLock<RunCtx> = OnceLock::new();

fn ctx(prop: &'static str) -> &'static RunCtx {
    let cell = if prop == "C05" { &CTX05 } else { &CTX02 };
    cell.get_or_init(|| RunCtx { prop, tier: Tier::Thorough, seed: 0, known: Known::load(), start: std::time::Instant::now(), strict: false })
}

pub const SEARCH_ALPHA: [char; 7] = ['a', 'b', 'é', '€', '😀', '\n', '\u{800}'];
pub const DIFF_ALPHA: [char; 6] = ['a', 'b', 'c', 'é', '\n', '-'];

pub fn decode_search(data: &[u8]) -> Option<(Node, String)> {
    if data.len() < 4 {
        return None;
    }
    let (tb, pb) = data.split_at(data.len() / 4);
    let n = gen::decode_pattern(&RandCfg::wild(), pb);
    let mut d = Dec::new(tb);
    Some((n, gen::decode_text(&mut d, &SEARCH_ALPHA, 6)))
}

pub fn decode_diff(data: &[u8]) -> Option<(Node, String)> {
    if data.len() < 4 {
        return None;
    }
    let (tb, pb) = data.split_at(data.len() / 4);
    let n = gen::decode_pattern(&RandCfg::core(), pb);
    let mut d = Dec::new(tb);
    Some((n, gen::decode_text(&mut d, &DIFF_ALPHA, 8)))
}

fn run<P: PatProp>(ctx: &RunCtx, prop: &P, n: &Node, text: &str) -> Option<Found> {
    let pat = prop.spell(n);
    let mut st = Stats::default();
    match prop.prepare(ctx, n, &pat, &mut st) {
        Prep::Ready(p) => {
            let mut pos = 0;
            loop {
                if let Verdict::Fail(f) = prop.eval(ctx, &p, n, text, pos) {
                    return Some(Found { node: n.clone(), text: text.to_string(), pos, fail: f });
                }
                match text[pos..].chars().next() {
                    Some(c) => pos += c.len_utf8(),
                    None => return None,
                }
            }
        }
        Prep::Fail(f) => Some(Found { node: n.clone(), text: String::new(), pos: 0, fail: f }),
        _ => None,
    }
}

pub fn diff_prop() -> DiffRef {
    DiffRef { caps: true, allow_cond: false, cond_focus: false, omit_empty_no: false, only_pos0: false, f1_undisputed: false, free_cond_refs: false }
}

/// C05 oracle on a fuzz input; Some(description) = violation
pub fn run_search(data: &[u8]) -> Option<Found> {
    let (n, text) = decode_search(data)?;
    run(ctx("C05"), &Safety, &n, &text)
}

/// C01/C02 oracle on a fuzz input
pub fn run_diff(data: &[u8]) -> Option<Found> {
    let (n, text) = decode_diff(data)?;
    run(ctx("C02"), &diff_prop(), &n, &text)
}

pub fn describe(f: &Found) -> String {
    let Fail { kind, expected, actual } = &f.fail;
    format!("pattern={:?} text={:?} pos={} kind={} expected={} actual={}", f.node.to_pattern(), f.text, f.pos, kind, expected, actual)
}
