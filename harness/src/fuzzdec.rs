//! Decoding of libFuzzer inputs into structured cases, shared by the fuzz targets and by the
//! harness (which re-checks, shrinks and reports artifacts).
use crate::ast::Node;
use crate::core::{Fail, Found, Known, PatProp, Prep, RunCtx, Stats, Tier, Verdict};
use crate::gen::{self, Dec, RandCfg};
use crate::props::api::Safety;
use crate::props::diffref::DiffRef;
use std::sync::OnceLock;

static CTX05: OnceLock<RunCtx> = OnceLock::new();
static CTX02: OnceLock<RunCtx> = OnceLock::new();

fn ctx(prop: &'static str) -> &'static RunCtx {
    let cell = if prop == "C05" { &CTX05 } else { &CTX02 };
    cell.get_or_init(|| RunCtx { prop, tier: Tier::Thorough, seed: 0, known: Known::load(), start: std::time::Instant::now(), strict: false })
}

pub const SEARCH_ALPHA: [char; 7] = ['a', 'b', 'é', '€', '😀', '\n', '\u{800}'];
pub const DIFF_ALPHA: [char; 6] = ['a', 'b', 'c', 'é', '\n', '-'];

pub fn decode_search(data: &[u8]) -> Option<(Node, String)> {
    if data.len() < 4 {
        return None;
    }
    let (tb, pb) = data.split_at(data.len() / 4);
    let n = gen::decode_pattern(&RandCfg::wild(), pb);
    let mut d = Dec::new(tb);
    Some((n, gen::decode_text(&mut d, &SEARCH_ALPHA, 6)))
}

pub fn decode_diff(data: &[u8]) -> Option<(Node, String)> {
    if data.len() < 4 {
        return None;
    }
    let (tb, pb) = data.split_at(data.len() / 4);
    let n = gen::decode_pattern(&RandCfg::core(), pb);
    let mut d = Dec::new(tb);
    Some((n, gen::decode_text(&mut d, &DIFF_ALPHA, 8)))
}

fn run<P: PatProp>(ctx: &RunCtx, prop: &P, n: &Node, text: &str) -> Option<Found> {
    let pat = prop.spell(n);
    let mut st = Stats::default();
    match prop.prepare(ctx, n, &pat, &mut st) {
        Prep::Ready(p) => {
            let mut pos = 0;
            loop {
                if let Verdict::Fail(f) = prop.eval(ctx, &p, n, text, pos) {
                    return Some(Found { node: n.clone(), text: text.to_string(), pos, fail: f });
                }
                if !prop.all_offsets() {
                    return None;
                }
                match text[pos..].chars().next() {
                    Some(c) => pos += c.len_utf8(),
                    None => return None,
                }
            }
        }
        Prep::Fail(f) => Some(Found { node: n.clone(), text: String::new(), pos: 0, fail: f }),
        _ => None,
    }
}

pub fn diff_prop() -> DiffRef {
    DiffRef { caps: true, allow_cond: false, cond_focus: false, omit_empty_no: false, only_pos0: false, f1_undisputed: false, free_cond_refs: false, ref_style: 0 }
}

/// C05 oracle on a fuzz input; Some(description) = violation
pub fn run_search(data: &[u8]) -> Option<Found> {
    let (n, text) = decode_search(data)?;
    run(ctx("C05"), &Safety, &n, &text)
}

/// C01/C02 oracle on a fuzz input
pub fn run_diff(data: &[u8]) -> Option<Found> {
    let (n, text) = decode_diff(data)?;
    run(ctx("C02"), &diff_prop(), &n, &text)
}

pub fn describe(f: &Found) -> String {
    let Fail { kind, expected, actual } = &f.fail;
    format!("pattern={:?} text={:?} pos={} kind={} expected={} actual={}", f.node.to_pattern(), f.text, f.pos, kind, expected, actual)
}

// ---------------------------------------------------------------------------------------------
// generic target `fuzz_prop`: the property is chosen at run time (environment variable FRV_FUZZ_PROP)

static CTXP: OnceLock<RunCtx> = OnceLock::new();

fn pctx(prop: &str) -> &'static RunCtx {
    CTXP.get_or_init(|| {
        let id: &'static str = crate::props::ALL.iter().find(|p| prop.starts_with(**p)).copied().unwrap_or("C05");
        RunCtx { prop: id, tier: Tier::Thorough, seed: 0, known: Known::load(), start: std::time::Instant::now(), strict: false }
    })
}

fn split_text(data: &[u8], alpha: &[char], maxlen: usize) -> Option<(String, Vec<u8>)> {
    if data.len() < 4 {
        return None;
    }
    let (tb, pb) = data.split_at(data.len() / 4);
    let mut d = Dec::new(tb);
    Some((gen::decode_text(&mut d, alpha, maxlen), pb.to_vec()))
}

/// names accepted by `prop_found`
pub const FUZZ_PROPS: [&str; 12] = ["C02-flags", "C03", "C04", "C07", "C08", "C09", "C10", "C11", "C14", "C15", "C16", "C19"];

/// pattern-level properties: bytes -> (AST of the property's grammar, text over its alphabet) -> the property's own oracle
pub fn prop_found(prop: &str, data: &[u8]) -> Option<Found> {
    use crate::props::{api, c01, c03, c04, c07, c14, c19};
    let ctx = pctx(prop);
    const API_ALPHA: [char; 6] = ['a', 'b', 'é', '\n', '-', '😀'];
    match prop {
        "C02-flags" => {
            let (t, pb) = split_text(data, &gen::FLAG_SIGMA, 7)?;
            let n = gen::decode_pattern(&RandCfg::flagged(), &pb);
            run(ctx, &c01::prop(true), &n, &t)
        }
        "C03" => {
            let (t, pb) = split_text(data, &DIFF_ALPHA, 7)?;
            let n = c03::decode_injected(&RandCfg::core(), &pb)?;
            run(ctx, &c03::Inject, &n, &t)
        }
        "C04" => {
            let (t, pb) = split_text(data, &['a', 'b', 'B', 'é', '\n', ' '], 7)?;
            let cfg = RandCfg { lits: vec!['a', 'b', 'B', 'é'], keepout: false, lookbehind: false, plain: true, ..RandCfg::core() };
            let n = gen::decode_pattern(&cfg, &pb);
            run(ctx, &c04::VsRegex { named: None }, &n, &t)
        }
        "C07" => {
            let (t, pb) = split_text(data, &SEARCH_ALPHA, 8)?;
            run(ctx, &c07::Limits { only_pos0: false }, &gen::decode_pattern(&RandCfg::wild(), &pb), &t)
        }
        "C08" | "C10" | "C11" => {
            let (t, pb) = split_text(data, &API_ALPHA, 7)?;
            let n = gen::decode_pattern(&RandCfg { contg: true, ..RandCfg::core() }, &pb);
            match prop {
                "C08" => run(ctx, &api::IterModel, &n, &t),
                "C10" => run(ctx, &api::SplitModel, &n, &t),
                _ => run(ctx, &api::ReplaceModel, &n, &t),
            }
        }
        "C09" => {
            let (t, pb) = split_text(data, &SEARCH_ALPHA, 7)?;
            run(ctx, &api::Coherence, &gen::decode_pattern(&RandCfg::wild(), &pb), &t)
        }
        "C14" => {
            let (t, pb) = split_text(data, &['a', 'A', 'b', 'B'], 6)?;
            let cfg = RandCfg { lits: vec!['a', 'B', 'b', 'A'], keepout: true, ..RandCfg::core() };
            run(ctx, &c14::Options, &gen::decode_pattern(&cfg, &pb), &t)
        }
        "C15" => {
            let (t, pb) = split_text(data, &['a', 'b', 'c', '-'], 7)?;
            let n = gen::decode_pattern(&RandCfg::cond(), &pb);
            if !n.has_cond() {
                return None;
            }
            run(ctx, &c01::prop_cond(), &n, &t)
        }
        "C16" => {
            let (t, pb) = split_text(data, &['a', 'b', 'é'], 6)?;
            let n = gen::decode_pattern(&RandCfg::wild(), &pb[1.min(pb.len())..]);
            if n.n_groups() == 0 {
                return None;
            }
            run(ctx, &api::Meta { force_vm: pb.first().map_or(false, |b| b & 1 == 1) }, &n, &t)
        }
        "C19" => {
            let (t, pb) = split_text(data, &DIFF_ALPHA, 6)?;
            let n = gen::decode_pattern(&RandCfg::core(), &pb[1.min(pb.len())..]);
            run(ctx, &c19::Respell { variant: pb.first().copied().unwrap_or(0) as usize }, &n, &t)
        }
        _ => None,
    }
}

/// all properties with a fuzz decoder: Some((case, failure)) = violation
pub fn prop_violation(prop: &str, data: &[u8]) -> Option<(serde_json::Value, Fail)> {
    match prop {
        "C12" => crate::props::c12::fuzz_one(data),
        "C17" => crate::props::c17::fuzz_one(data),
        "C20" => crate::props::c20::fuzz_one(data),
        _ => prop_found(prop, data).map(|f| (crate::core::pat_case(&f.node.to_pattern(), &f.node, &f.text, f.pos, serde_json::Value::Null), f.fail)),
    }
}
