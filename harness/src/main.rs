use frv::core::*;
use frv::props;
use serde_json::Value;
use std::time::Instant;

#[global_allocator]
static ALLOC: frv::alloc_count::Counting = frv::alloc_count::Counting;

fn usage() -> ! {
    eprintln!("usage: frv <ID> <quick|thorough> | frv <ID> --replay <file>");
    std::process::exit(2)
}

fn main() {
    let args: Vec<String> = std::env::args().collect();
    if args.len() < 3 {
        usage();
    }
    let prop: &'static str = match props::ALL.iter().find(|p| **p == args[1]) {
        Some(p) => p,
        None => usage(),
    };
    let seed: u64 = std::env::var("VERIF_SEED").ok().and_then(|s| s.parse().ok()).unwrap_or(1);
    frv::engine::silence_panics();
    let threads = std::env::var("VERIF_THREADS").ok().and_then(|s| s.parse().ok()).unwrap_or(16usize);
    rayon::ThreadPoolBuilder::new().num_threads(threads).stack_size(64 << 20).build_global().unwrap();

    if args[2] == "--worker" {
        let ctx = RunCtx { prop, tier: Tier::Quick, seed, known: Known::default(), start: Instant::now(), strict: true };
        props::worker(&ctx, &args[3..]);
        return;
    }
    if args[1] == "C01" && args[2] == "--probe" {
        // debugging aid: frv C01 --probe <pattern> <text>
        let (pat, mut text) = (&args[3], args.get(4).cloned().unwrap_or_default());
        if let Some(f) = text.strip_prefix('@') {
            text = std::fs::read_to_string(f).expect("text file");
            let t0 = Instant::now();
            let re = fancy_regex::Regex::new(pat).expect("compiles");
            println!("find: {:?} after {:?}", re.find(&text).map(|m| m.map(|m| (m.start(), m.end()))), t0.elapsed());
            let t0 = Instant::now();
            println!("find_iter items: {:?} after {:?}", re.find_iter(&text).take(5).map(|m| m.map(|m| (m.start(), m.end())).map_err(|e| e.to_string())).collect::<Vec<_>>(), t0.elapsed());
            return;
        }
        match frv::engine::build(pat) {
            frv::engine::Built::Ok(re) => {
                println!("vm={} captures_len={} names={:?}", frv::engine::is_vm(&re), re.captures_len(), re.capture_names().collect::<Vec<_>>());
                println!("{}", frv::engine::debug_listing(&re));
                for pos in frv::engine::char_offsets(&text) {
                    fancy_regex::verif_hooks::reset_run_stats();
                    let _ = frv::engine::find_from_pos(&re, &text, pos);
                    println!("stats from {}: {:?}", pos, fancy_regex::verif_hooks::last_run_stats());
                    println!("from {}: find={} caps={}", pos, frv::engine::find_from_pos(&re, &text, pos).show(), frv::engine::captures_from_pos(&re, &text, pos).show());
                }
                println!("find_iter={}", frv::engine::find_iter_spans(&re, &text, 50).show());
            }
            frv::engine::Built::Err(e) => println!("Err: {} / {:?}", e, e),
            frv::engine::Built::Panic(p) => println!("PANIC: {}", p),
        }
        return;
    }
    if args[2] == "--rx" {
        // debugging aid: frv C04 --rx <pattern> <text>: what the regex crate does
        let (pat, text) = (&args[3], args.get(4).cloned().unwrap_or_default());
        match regex::Regex::new(pat) {
            Ok(r) => println!("regex crate: find={:?} captures={:?}", r.find(&text).map(|m| m.range()), r.captures(&text).map(|c| c.iter().map(|g| g.map(|m| m.range())).collect::<Vec<_>>())),
            Err(e) => println!("regex crate: Err {}", e.to_string().lines().last().unwrap_or("")),
        }
        return;
    }
    if args[2] == "--mkcase" {
        // frv <ID> --mkcase <pattern> <text> <pos> [extra-json]: print a replay file for a hand-written case
        let n = frv::conv::parse(&args[3]).expect("pattern parses and converts");
        let text = args.get(4).cloned().unwrap_or_default();
        let pos: usize = args.get(5).and_then(|p| p.parse().ok()).unwrap_or(0);
        let extra: Value = args.get(6).and_then(|e| serde_json::from_str(e).ok()).unwrap_or(Value::Null);
        let body = serde_json::json!({"property": prop, "kind": "regression", "case": pat_case(&n.to_pattern(), &n, &text, pos, extra), "expected": "property holds", "actual": ""});
        println!("{}", serde_json::to_string_pretty(&body).unwrap());
        return;
    }
    if args[2] == "--artifact" {
        // frv <ID> --artifact <fuzz_search|fuzz_diff|fuzz_compile> <file>: re-check a libFuzzer artifact in-process
        let data = std::fs::read(&args[4]).expect("read artifact");
        let found = match args[3].as_str() {
            "fuzz_search" => frv::fuzzdec::run_search(&data),
            "fuzz_diff" => frv::fuzzdec::run_diff(&data),
            _ => {
                match std::str::from_utf8(&data).map(frv::props::c06::check_compile) {
                    Ok(Err(f)) => println!("VIOLATING input={:?} kind={} expected={} actual={}", String::from_utf8_lossy(&data), f.kind, f.expected, f.actual),
                    _ => println!("no violation on this input"),
                }
                return;
            }
        };
        match found {
            Some(f) => println!("VIOLATING {}", frv::fuzzdec::describe(&f)),
            None => println!("no violation on this input"),
        }
        return;
    }
    if args[2] == "--one" {
        props::c06::one(args.get(3).map(|s| s.as_str()).unwrap_or(""));
        return;
    }
    // watchdog: a check that makes no progress is inconclusive (exit 2), never a violation
    {
        let limit: u64 = std::env::var("VERIF_WATCHDOG_S").ok().and_then(|s| s.parse().ok()).unwrap_or(if args[2] == "thorough" { 4 * 3600 } else { 1500 });
        std::thread::spawn(move || {
            std::thread::sleep(std::time::Duration::from_secs(limit));
            eprintln!("watchdog: no result after {} s - inconclusive", limit);
            std::process::exit(2);
        });
    }
    if args[2] == "--replay" {
        let path = args.get(3).unwrap_or_else(|| usage());
        let ctx = RunCtx { prop, tier: Tier::Quick, seed, known: Known::load(), start: Instant::now(), strict: true };
        let body: Value = serde_json::from_str(&std::fs::read_to_string(path).expect("read replay file")).expect("parse replay file");
        let case = body.get("case").cloned().unwrap_or(body.clone());
        match props::replay(&ctx, &case) {
            Ok(None) => {
                println!("replay {}: property holds on this case", path);
                std::process::exit(0)
            }
            Ok(Some(f)) => {
                println!("replay {}: kind={} expected={} actual={}", path, f.kind, f.expected, f.actual);
                println!("VIOLATION property={} replay={}", prop, path);
                std::process::exit(1)
            }
            Err(e) => {
                eprintln!("replay error: {}", e);
                std::process::exit(2)
            }
        }
    }
    let tier = match args[2].as_str() {
        "quick" => Tier::Quick,
        "thorough" => Tier::Thorough,
        _ => usage(),
    };
    let ctx = RunCtx { prop, tier, seed, known: Known::load(), start: Instant::now(), strict: false };
    let strict = RunCtx { prop, tier, seed, known: ctx.known.clone(), start: Instant::now(), strict: true };
    let mut lines: Vec<String> = vec![];
    let mut known_reported: Vec<String> = vec![];
    let mut exit_code = 0;

    // 1. known findings: probe witnesses
    for e in &ctx.known.entries {
        if !e.properties.iter().any(|p| p == prop) {
            continue;
        }
        let mut still = 0;
        let mut total = 0;
        for w in &e.witnesses {
            if w.get("property").and_then(|p| p.as_str()) != Some(prop) {
                continue;
            }
            total += 1;
            let case = w.get("case").cloned().unwrap_or(Value::Null);
            match props::replay(&strict, &case) {
                Ok(Some(_)) => still += 1,
                Ok(None) => {}
                Err(err) => eprintln!("note: witness of {} could not be evaluated: {}", e.id, err),
            }
        }
        if e.status == "known" {
            if still > 0 {
                lines.push(format!("KNOWN-FINDING: property={} {} {} ({} of {} witnesses still fail)", prop, e.id, e.what, still, total));
                known_reported.push(e.id.clone());
            } else if total > 0 {
                println!("NOTE: known finding {} no longer reproduces on its witnesses for {}", e.id, prop);
            }
        } else if still > 0 {
            // fixed findings suppress nothing: a returning failure is a violation
            for w in &e.witnesses {
                if w.get("property").and_then(|p| p.as_str()) != Some(prop) {
                    continue;
                }
                let case = w.get("case").cloned().unwrap_or(Value::Null);
                if let Ok(Some(f)) = props::replay(&strict, &case) {
                    let v = Violation { case, fail: f };
                    let path = write_replay(&ctx, &v);
                    lines.push(format!("VIOLATION property={} replay={}", prop, path));
                    exit_code = 1;
                }
            }
        }
    }

    // 2. saved regression inputs
    let rdir = format!("{}/replays/{}", verif_dir(), prop);
    let mut nreplay = 0;
    if let Ok(rd) = std::fs::read_dir(&rdir) {
        let mut files: Vec<_> = rd.filter_map(|e| e.ok()).map(|e| e.path()).filter(|p| p.extension().map_or(false, |x| x == "json")).collect();
        files.sort();
        for f in files {
            if f.file_name().and_then(|n| n.to_str()).map_or(false, |n| n.starts_with("found-")) {
                continue; // fresh findings of earlier runs are not regression inputs until triaged
            }
            let Ok(s) = std::fs::read_to_string(&f) else { continue };
            let Ok(body) = serde_json::from_str::<Value>(&s) else { continue };
            let case = body.get("case").cloned().unwrap_or(Value::Null);
            nreplay += 1;
            if let Ok(Some(fail)) = props::replay(&strict, &case) {
                println!("regression input {} fails: kind={} expected={} actual={}", f.display(), fail.kind, fail.expected, fail.actual);
                lines.push(format!("VIOLATION property={} replay={}", prop, f.display()));
                exit_code = 1;
            }
        }
    }

    // 3. exploration
    let mut o = props::run(&ctx);
    o.extra.insert("regression_inputs_replayed".into(), serde_json::json!(nreplay));
    if let Some(e) = &o.infra_error {
        eprintln!("infrastructure error: {}", e);
        std::process::exit(2);
    }
    for v in &o.violations {
        let path = write_replay(&ctx, v);
        println!("violation: kind={} case={} expected={} actual={}", v.fail.kind, v.case, v.fail.expected, v.fail.actual);
        lines.push(format!("VIOLATION property={} replay={}", prop, path));
        exit_code = 1;
    }
    write_evidence(&ctx, &o, &known_reported);
    println!(
        "{} {}: evaluations={} distinct_nontrivial={} patterns={} wall={:.1}s",
        prop,
        tier.name(),
        o.stats.evaluations,
        o.stats.distinct_nontrivial(),
        o.stats.patterns,
        ctx.start.elapsed().as_secs_f64()
    );
    for l in &lines {
        println!("{}", l);
    }
    if exit_code == 0 {
        for c in &o.required_classes {
            if o.stats.classes.get(c).copied().unwrap_or(0) == 0 {
                eprintln!("generator health: required class {:?} is empty", c);
                std::process::exit(2);
            }
        }
        if o.stats.distinct_nontrivial() < 2 {
            eprintln!("generator health: fewer than 2 non-trivial cases");
            std::process::exit(2);
        }
    }
    std::process::exit(exit_code);
}
