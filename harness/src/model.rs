//! Small independent reference models: template expansion (written from the doc comments of
//! `Captures::expand`, `Regex::replace` and `Expander::python`).

/// What a capture source must provide to the model.
pub trait Groups {
    fn by_index(&self, i: usize) -> Option<&str>;
    fn by_name(&self, name: &str) -> Option<&str>;
    /// does a group with that name exist in the regex (matched or not)?
    fn has_name(&self, name: &str) -> bool;
    fn n_groups(&self) -> usize;
}

#[derive(Clone, Debug, PartialEq, Eq)]
pub enum Ref {
    Num(usize),
    Name(String),
    /// syntactically broken reference (sub char followed by nothing usable)
    Malformed,
}

fn is_id_char(c: char) -> bool {
    c.is_alphanumeric() || c == '_'
}

/// Scan `template`; call `lit` for literal text and `reference` for each reference found.
/// `dollar`: true = default `$` syntax, false = python `\` syntax.
pub fn scan(template: &str, dollar: bool, mut lit: impl FnMut(&str), mut reference: impl FnMut(Ref)) {
    let sub = if dollar { '$' } else { '\\' };
    let (open, close) = if dollar { ("{", "}") } else { ("g<", ">") };
    let mut rest = template;
    while let Some(i) = rest.find(sub) {
        lit(&rest[..i]);
        let tail = &rest[i + sub.len_utf8()..];
        // doubled substitution character -> literal
        if tail.starts_with(sub) {
            lit(&tail[..sub.len_utf8()]);
            rest = &tail[sub.len_utf8()..];
            continue;
        }
        // delimited name
        if let Some(inner) = tail.strip_prefix(open) {
            let id_len: usize = inner.chars().take_while(|c| is_id_char(*c)).map(|c| c.len_utf8()).sum();
            if id_len > 0 && inner[id_len..].starts_with(close) {
                reference(Ref::Name(inner[..id_len].to_string()));
                rest = &inner[id_len + close.len()..];
                continue;
            }
        }
        if dollar {
            // undelimited name: the longest identifier
            let id_len: usize = tail.chars().take_while(|c| is_id_char(*c)).map(|c| c.len_utf8()).sum();
            if id_len > 0 {
                reference(Ref::Name(tail[..id_len].to_string()));
                rest = &tail[id_len..];
                continue;
            }
        } else {
            // python: the longest number
            let n_len = tail.bytes().take_while(|b| b.is_ascii_digit()).count();
            if n_len > 0 {
                match tail[..n_len].parse::<usize>() {
                    Ok(n) => reference(Ref::Num(n)),
                    // documented: an invalid index expands to the empty string
                    Err(_) => reference(Ref::Num(usize::MAX)),
                }
                rest = &tail[n_len..];
                continue;
            }
        }
        // anything else: the substitution character is copied verbatim
        reference(Ref::Malformed);
        lit(&rest[i..i + sub.len_utf8()]);
        rest = tail;
    }
    lit(rest);
}

pub fn expand(template: &str, dollar: bool, g: &dyn Groups) -> String {
    let out = std::cell::RefCell::new(String::new());
    scan(
        template,
        dollar,
        |s| out.borrow_mut().push_str(s),
        |r| match r {
            Ref::Num(n) => {
                if let Some(s) = g.by_index(n) {
                    out.borrow_mut().push_str(s)
                }
            }
            Ref::Name(name) => {
                // a name is looked up as a named group first, then as an index
                if let Some(s) = g.by_name(&name) {
                    out.borrow_mut().push_str(s)
                } else if let Some(s) = name.parse::<usize>().ok().and_then(|n| g.by_index(n)) {
                    out.borrow_mut().push_str(s)
                }
            }
            Ref::Malformed => {}
        },
    );
    out.into_inner()
}

pub fn references(template: &str, dollar: bool) -> Vec<Ref> {
    let mut v = vec![];
    scan(template, dollar, |_| {}, |r| v.push(r));
    v
}

/// Groups given as spans into a text, with optional names.
pub struct SpanGroups<'a> {
    pub text: &'a str,
    pub spans: &'a [Option<(usize, usize)>],
    pub names: &'a [Option<String>],
}

impl Groups for SpanGroups<'_> {
    fn by_index(&self, i: usize) -> Option<&str> {
        self.spans.get(i).copied().flatten().map(|(a, b)| &self.text[a..b])
    }
    fn by_name(&self, name: &str) -> Option<&str> {
        let i = self.names.iter().position(|n| n.as_deref() == Some(name))?;
        self.by_index(i)
    }
    fn has_name(&self, name: &str) -> bool {
        self.names.iter().any(|n| n.as_deref() == Some(name))
    }
    fn n_groups(&self) -> usize {
        self.spans.len()
    }
}

#[cfg(test)]
mod tests {
    use super::*;
    #[test]
    fn doc_examples() {
        let spans = [Some((0, 10)), Some((0, 4)), Some((5, 10))];
        let names = [None, Some("first".to_string()), Some("second".to_string())];
        let g = SpanGroups { text: "deep fried", spans: &spans, names: &names };
        assert_eq!(expand("${first}_$second", true, &g), "deep_fried");
        assert_eq!(expand("$first_$second", true, &g), "fried");
        assert_eq!(expand("$$x$2", true, &g), "$xfried");
        assert_eq!(expand("\\2-\\g<first>\\\\", false, &g), "fried-deep\\");
        assert_eq!(expand("a$", true, &g), "a$");
        assert_eq!(expand("${", true, &g), "${");
    }
}
