//! C14: builder options act the same on fancy and plain patterns.
use super::c01::{stage, stage_random};
use super::space;
use crate::ast::{Node, Node::*, A, Q};
use crate::core::*;
use crate::engine::{self, Built, Out};
use crate::gen::{self, RandCfg};
use fancy_regex::Regex;

pub struct Options;

pub struct OP {
    plain: Regex,
    /// RegexBuilder(P).case_insensitive(true)
    opt_ci: Regex,
    /// Regex::new("(?i)" + P)
    flag_ci: Regex,
    /// RegexBuilder(P) with case_insensitive(false) and huge limits
    neutral: Regex,
    /// RegexBuilder(P) with a tiny dfa size limit (must not change results)
    tiny_dfa: Option<Regex>,
    /// RegexBuilder(P).backtrack_limit(L) for small L
    limited: Vec<(usize, Regex)>,
    /// (RegexBuilder(P).case_insensitive(true).backtrack_limit(L), RegexBuilder("(?i)"+P).backtrack_limit(L)) in both call orders
    ci_limited: Vec<(usize, Regex, Regex, Regex)>,
    vm: bool,
    letters: bool,
    /// case_insensitive(true).case_insensitive(false) and case_insensitive(false)...case_insensitive(true)
    seq: (Regex, Regex),
}

fn letters_of(n: &Node) -> bool {
    n.any(|x| matches!(x, Lit(c) if c.is_alphabetic()) || matches!(x, Class(..)))
}

const LIMITS: [usize; 3] = [1, 3_000, 40_000];

impl PatProp for Options {
    type P = OP;
    fn prepare(&self, ctx: &RunCtx, n: &Node, pat: &str, st: &mut Stats) -> Prep<OP> {
        if n.has_leaky_inline_flag() && ctx.active("inline_flag_inside_non_flag_group") {
            return Prep::Excluded("F5:inline_flag_inside_non_flag_group");
        }
        let plain = match engine::build(pat) {
            Built::Ok(r) => r,
            Built::Err(_) => return Prep::Skip("compile:error"),
            Built::Panic(p) => return Prep::Fail(Fail::new("compile-panic", "Ok or Err", p)),
        };
        let need = |b: Built, what: &str| -> Result<Regex, Fail> {
            match b {
                Built::Ok(r) => Ok(r),
                Built::Err(e) => Err(Fail::new("option-build-error", format!("{} builds like the plain pattern", what), engine::err_kind(&e))),
                Built::Panic(p) => Err(Fail::new("compile-panic", "Ok", p)),
            }
        };
        // the case-insensitive form may be too big for the automata engine where the plain one is not: then both
        // ways of asking for it must fail alike
        let (bo, bf) = (engine::build_with(pat, |b| { b.case_insensitive(true); }), engine::build(&format!("(?i){}", pat)));
        if let (Built::Err(e1), Built::Err(e2)) = (&bo, &bf) {
            if engine::err_kind(e1) == engine::err_kind(e2) {
                return Prep::Skip("compile:case-insensitive-form-rejected-both-ways");
            }
        }
        let opt_ci = match need(bo, "case_insensitive(true)") {
            Ok(r) => r,
            Err(f) => return Prep::Fail(f),
        };
        let flag_ci = match need(bf, "(?i) prefix") {
            Ok(r) => r,
            Err(f) => return Prep::Fail(f),
        };
        let neutral = match need(
            engine::build_with(pat, |b| {
                b.case_insensitive(false).backtrack_limit(usize::MAX / 4).delegate_size_limit(1 << 30).delegate_dfa_size_limit(1 << 30);
            }),
            "neutral options",
        ) {
            Ok(r) => r,
            Err(f) => return Prep::Fail(f),
        };
        let tiny_dfa = match engine::build_with(pat, |b| {
            b.delegate_dfa_size_limit(1);
        }) {
            Built::Ok(r) => Some(r),
            Built::Err(_) => None,
            Built::Panic(p) => return Prep::Fail(Fail::new("compile-panic", "Ok or Err", p)),
        };
        let vm = engine::is_vm(&plain);
        st.class(if vm { "engine:VM" } else { "engine:Wrap" });
        // the last call of a setter wins: true then false is the plain pattern, false then true the case-insensitive one
        let tf = engine::build_with(pat, |b| { b.case_insensitive(true).case_insensitive(false); });
        let ft = engine::build_with(pat, |b| { b.case_insensitive(false).backtrack_limit(5).case_insensitive(true).backtrack_limit(1_000_000); });
        let (tf, ft) = match (tf, ft) {
            (Built::Ok(a), Built::Ok(b)) => (a, b),
            _ => return Prep::Fail(Fail::new("option-build-error", "builder call sequences build like the single calls", "Err")),
        };
        let mut limited = vec![];
        for lim in [0usize, 2, 6] {
            match engine::build_with(pat, |b| {
                b.backtrack_limit(lim);
            }) {
                Built::Ok(r) => limited.push((lim, r)),
                Built::Err(e) => return Prep::Fail(Fail::new("option-build-error", "backtrack_limit does not affect the build", engine::err_kind(&e))),
                Built::Panic(p) => return Prep::Fail(Fail::new("compile-panic", "Ok", p)),
            }
        }
        let mut ci_limited = vec![];
        if vm {
            for lim in [0usize, 3] {
                let a = engine::build_with(pat, |b| {
                    b.case_insensitive(true).backtrack_limit(lim);
                });
                let a2 = engine::build_with(pat, |b| {
                    b.backtrack_limit(lim).case_insensitive(true).delegate_size_limit(1 << 30);
                });
                let b = engine::build_with(&format!("(?i){}", pat), |b| {
                    b.backtrack_limit(lim);
                });
                if let (Built::Ok(a), Built::Ok(a2), Built::Ok(b)) = (a, a2, b) {
                    ci_limited.push((lim, a, a2, b));
                }
            }
        }
        // delegate size limit: the build fails iff some delegated piece alone exceeds the limit
        let pieces: Vec<String> = if vm {
            engine::program_shape(pat).map(|(d, _)| d).unwrap_or_default()
        } else {
            vec![]
        };
        if vm {
            for lim in LIMITS {
                let piece_fails = pieces.iter().any(|p| regex::RegexBuilder::new(p).size_limit(lim).build().is_err());
                let built = engine::build_with(pat, |b| {
                    b.delegate_size_limit(lim);
                });
                let fails = match built {
                    Built::Ok(_) => false,
                    Built::Err(e) => {
                        if engine::err_kind(&e) != "InnerError" {
                            return Prep::Fail(Fail::new("size-limit-error-kind", "CompileError::InnerError", engine::err_kind(&e)));
                        }
                        true
                    }
                    Built::Panic(p) => return Prep::Fail(Fail::new("compile-panic", "Ok or Err", p)),
                };
                if fails != piece_fails {
                    return Prep::Fail(Fail::new(
                        "size-limit",
                        format!("delegate_size_limit({}): build fails = {} (pieces {:?} built alone with regex::RegexBuilder::size_limit)", lim, piece_fails, pieces),
                        format!("build fails = {}", fails),
                    ));
                }
                st.class(if fails { "size-limit:rejects" } else { "size-limit:accepts" });
                // combining the two size limits (in either order) must not lose one of them
                for order in [0, 1] {
                    let both = engine::build_with(pat, |b| {
                        if order == 0 {
                            b.delegate_size_limit(lim).delegate_dfa_size_limit(1 << 30);
                        } else {
                            b.delegate_dfa_size_limit(1 << 30).delegate_size_limit(lim);
                        }
                    });
                    let both_fails = matches!(both, Built::Err(_));
                    if both_fails != fails {
                        return Prep::Fail(Fail::new("size-limit-combined", format!("delegate_size_limit({}) + delegate_dfa_size_limit(1<<30): build fails = {}", lim, fails), format!("build fails = {} (order {})", both_fails, order)));
                    }
                }
            }
        }
        Prep::Ready(OP { plain, opt_ci, flag_ci, neutral, tiny_dfa, limited, ci_limited, vm, letters: letters_of(n), seq: (tf, ft) })
    }

    fn eval(&self, _ctx: &RunCtx, p: &OP, _n: &Node, t: &str, pos: usize) -> Verdict {
        let a = engine::captures_from_pos(&p.opt_ci, t, pos);
        let b = engine::captures_from_pos(&p.flag_ci, t, pos);
        let c = engine::captures_from_pos(&p.plain, t, pos);
        let c_limit_err = matches!(&c, Out::Err(e) if e == "BacktrackLimitExceeded" || e == "StackOverflow");
        if a != b {
            return Verdict::Fail(Fail::new("case_insensitive-vs-(?i)", format!("(?i)P: {}", b.show()), format!("case_insensitive(true): {}", a.show())));
        }
        let d = engine::captures_from_pos(&p.neutral, t, pos);
        // a run that ends in a resource-limit error under the default limits may legitimately end in an
        // answer under the huge limit (that is what the limit is for): only answers are compared
        if c_limit_err {
            return Verdict::Skip("default-limit-error");
        }
        if c != d {
            return Verdict::Fail(Fail::new("neutral-options", format!("no options: {}", c.show()), format!("case_insensitive(false) + huge limits: {}", d.show())));
        }
        if let Some(td) = &p.tiny_dfa {
            let e = engine::captures_from_pos(td, t, pos);
            if c != e {
                return Verdict::Fail(Fail::new("dfa-size-limit-changes-result", format!("no options: {}", c.show()), format!("delegate_dfa_size_limit(1): {}", e.show())));
            }
        }
        let (stf, sft) = (engine::captures_from_pos(&p.seq.0, t, pos), engine::captures_from_pos(&p.seq.1, t, pos));
        if stf != c && !c_limit_err {
            return Verdict::Fail(Fail::new("setter-sequence", format!("no options: {}", c.show()), format!("case_insensitive(true).case_insensitive(false): {}", stf.show())));
        }
        if sft != a {
            return Verdict::Fail(Fail::new("setter-sequence", format!("case_insensitive(true): {}", a.show()), format!("case_insensitive(false).backtrack_limit(5).case_insensitive(true).backtrack_limit(10^6): {}", sft.show())));
        }
        // a clone carries the options of the original
        let ac = engine::captures_from_pos(&p.opt_ci.clone(), t, pos);
        if ac != a {
            return Verdict::Fail(Fail::new("clone-loses-option", format!("case_insensitive(true): {}", a.show()), format!("its clone: {}", ac.show())));
        }
        if pos == 0 {
            let x = engine::find_iter_spans(&p.opt_ci, t, t.len() + 3);
            let y = engine::find_iter_spans(&p.flag_ci, t, t.len() + 3);
            if x != y {
                return Verdict::Fail(Fail::new("case_insensitive-vs-(?i)", format!("(?i)P find_iter: {}", y.show()), format!("case_insensitive(true) find_iter: {}", x.show())));
            }
        }
        // backtrack_limit: every entry point either reports the limit error or the unlimited answer,
        // and entry points that run the same search agree on which of the two
        let mut limit_hit = false;
        for (lim, re) in &p.limited {
            let f = engine::find_from_pos(re, t, pos);
            let cc = engine::captures_from_pos(re, t, pos);
            let fcl = engine::find_from_pos(&re.clone(), t, pos);
            if fcl != f {
                return Verdict::Fail(Fail::new("clone-loses-option", format!("backtrack_limit({}): {}", lim, f.show()), format!("its clone: {}", fcl.show())));
            }
            let want_f: Out<crate::refm::Span> = match &c {
                Out::Val(v) => Out::Val(v.as_ref().map(|v| v[0]).flatten()),
                Out::Err(e) => Out::Err(e.clone()),
                Out::Panic(x) => Out::Panic(x.clone()),
            };
            let lim_err = Out::Err("BacktrackLimitExceeded".to_string());
            if f != want_f && f != lim_err {
                return Verdict::Fail(Fail::new("backtrack_limit-find", format!("Err(BacktrackLimitExceeded) or {}", want_f.show()), format!("limit {}: {}", lim, f.show())));
            }
            let cerr: Out<Option<Vec<crate::refm::Span>>> = Out::Err("BacktrackLimitExceeded".to_string());
            if cc != c && cc != cerr {
                return Verdict::Fail(Fail::new("backtrack_limit-captures", format!("Err(BacktrackLimitExceeded) or {}", c.show()), format!("limit {}: {}", lim, cc.show())));
            }
            if (f == lim_err) != (cc == cerr) {
                return Verdict::Fail(Fail::new("backtrack_limit-inconsistent", "find_from_pos and captures_from_pos hit the limit together", format!("limit {}: find {} / captures {}", lim, f.show(), cc.show())));
            }
            if pos == 0 {
                let im = engine::guard(|| re.is_match(t));
                let im_limited = im == Out::Err("BacktrackLimitExceeded".to_string());
                if im_limited != (f == lim_err) {
                    return Verdict::Fail(Fail::new("backtrack_limit-inconsistent", "is_match and find hit the limit together", format!("limit {}: is_match {} / find {}", lim, im.show(), f.show())));
                }
            }
            limit_hit |= f == lim_err;
        }
        // options combine: the case option must not make the backtrack limit disappear (or vice versa)
        for (lim, a, a2, b) in &p.ci_limited {
            let rb = engine::captures_from_pos(b, t, pos);
            for (name, r) in [("case_insensitive + backtrack_limit", a), ("backtrack_limit + case_insensitive + size limit", a2)] {
                let ra = engine::captures_from_pos(r, t, pos);
                if ra != rb {
                    return Verdict::Fail(Fail::new("option-combination", format!("(?i)P under backtrack_limit({}): {}", lim, rb.show()), format!("{}: {}", name, ra.show())));
                }
            }
        }
        if limit_hit {
            return Verdict::Pass { nontrivial: p.vm, class: Some("backtrack_limit:hit") };
        }
        // non-trivial: the case-insensitive run matches where the plain one does not (text differs by case)
        let ci_only = matches!(a, Out::Val(Some(_))) && !matches!(c, Out::Val(Some(_)));
        Verdict::Pass { nontrivial: p.vm && p.letters && ci_only, class: if ci_only { Some("match:only-case-insensitively") } else { None } }
    }
}

fn cfg() -> gen::Cfg {
    fn bx(n: Node) -> Box<Node> {
        Box::new(n)
    }
    fn rep(c: Node, lo: u32, hi: Option<u32>, q: Q) -> Option<Node> {
        if c.repeatable() {
            Some(Repeat(bx(c), lo, hi, q))
        } else {
            None
        }
    }
    gen::Cfg {
        leaves: vec![Lit('a'), Lit('B'), Class(false, vec![('a', 'b')]), Class(true, vec![('A', 'A')]), Any, Assert(A::WordB), Backref(1), Empty, Perl('w')],
        unary: vec![
            |c| Some(Group(bx(c))),
            |c| Some(Atomic(bx(c))),
            |c| Some(Look(bx(c), false, false)),
            |c| Some(Look(bx(c), false, true)),
            |c| Some(Look(bx(c), true, false)),
            |c| Some(Look(bx(c), true, true)),
            |c| rep(c, 0, Some(1), Q::Greedy),
            |c| rep(c, 0, None, Q::Greedy),
            |c| rep(c, 1, None, Q::Lazy),
            |c| rep(c, 1, None, Q::Poss),
            |c| Some(Flags("i".into(), "".into(), bx(c))),
            |c| Some(Flags("".into(), "i".into(), bx(c))),
        ],
        ternary_concat: true,
        cond: false,
    }
}

pub fn run(ctx: &RunCtx) -> Outcome {
    let p = Options;
    let mut o = Outcome::default();
    o.rule = "patterns over mixed-case literals {a,B}, classes, \\w, ., \\b, back-references, groups, atomic groups, four look-arounds, quantifiers and scoped (?i:..) / (?-i:..) groups (exhaustive trees by node count, proptest random ASTs); texts over {a,A,b,B} (<=4). Per (pattern, text, offset): RegexBuilder(P).case_insensitive(true) must equal Regex::new(\"(?i)\"+P) on captures (and find_iter); case_insensitive(false) + huge backtrack / size limits and a 1-byte DFA size limit must equal the plain pattern; under backtrack_limit 0 / 2 / 6 find_from_pos, captures_from_pos and is_match each return BacktrackLimitExceeded or the unlimited answer, and agree on which; case_insensitive(true) combined with backtrack_limit (either call order) equals (?i)P under the same limit. Per VM pattern and delegate_size_limit L in {1, 3000, 40000}: the build fails (with InnerError; also when combined with a DFA size limit in either order) iff one of the delegated pieces of the program, built alone through regex::RegexBuilder::size_limit(L), fails. Size probes: 18 large counted repeats (\\w{n}, (?i)\\pL{n}, [a-z]{n}, (?:ab|c){n}) alone and inside five fancy hosts, built without options and with delegate_size_limit(1<<30): the build fails iff the regex crate rejects the repeat with its default / that limit (probes whose verdict changes between 4 MiB and 25 MiB are skipped). Clones of the optioned regexes must answer like the originals; a stage of patterns without any ASCII letter (é, Я) over texts in both cases. Non-trivial = VM-compiled pattern with a letter and a text that matches only case-insensitively. Distinct = distinct (pattern, text, offset).".into();
    o.assumptions = vec![
        "regex::RegexBuilder::size_limit forwards to the same regex-automata NFA size limit that delegate_size_limit is documented to forward to".into(),
        "delegate_dfa_size_limit is only checked for not changing results (the regex crate maps its dfa_size_limit to a different knob)".into(),
    ];
    o.required_classes = vec!["backtrack_limit:hit".into(), "engine:VM".into(), "engine:Wrap".into(), "match:only-case-insensitively".into(), "size-limit:rejects".into(), "size-limit:accepts".into(), "size-probe:default-rejects".into(), "size-probe:default-accepts".into()];
    let quick = ctx.quick();
    let n = if quick { 3 } else { 4 };
    let pats = space(&cfg(), n, false);
    let texts = gen::texts(&['a', 'A', 'b', 'B'], if quick { 3 } else { 4 });
    if !stage(ctx, &mut o, &p, &format!("mixed-case grammar N<={}", n), &pats, &texts) {
        return o;
    }
    o.exhaustive = Some(format!("all valid trees with <= {} nodes over the mixed-case leaf/operator set x all texts over {{a,A,b,B}} of length <= {}", n, if quick { 3 } else { 4 }));
    if quick {
        // the N=4 layer on fewer texts
        let p4: Vec<Node> = space(&cfg(), 4, false).into_iter().filter(|x| x.size() == 4).collect();
        let t2 = gen::texts(&['a', 'A', 'B'], 2);
        if !stage(ctx, &mut o, &p, "mixed-case grammar N=4 (short texts)", &p4, &t2) {
            return o;
        }
    }
    // default size limit: without any option a delegated piece is still bounded by the automata engine's default
    // (a plain pattern that the regex crate rejects as too big must be rejected inside a fancy pattern too)
    if o.violations.is_empty() {
        let mut probes: Vec<String> = vec![];
        for n in [10usize, 60, 150, 300, 600] {
            probes.push(format!("\\w{{{}}}", n));
            probes.push(format!("(?i)\\pL{{{}}}", n));
        }
        for n in [100usize, 2_000, 20_000, 200_000] {
            probes.push(format!("[a-z]{{{}}}", n));
            probes.push(format!("(?:ab|c){{{}}}", n));
        }
        let hosts: [(&str, &str); 6] = [("", ""), ("(?=", ")a"), ("(?>", ")b"), ("(?<!x)", ""), ("(", ")\\1"), ("(?!q)", "(?=)")];
        let mb = 1usize << 20;
        for pr in &probes {
            let build_rx = |lim: Option<usize>| {
                let mut b = regex::RegexBuilder::new(pr);
                if let Some(l) = lim {
                    b.size_limit(l);
                }
                b.build().is_err()
            };
            let want_fail = build_rx(None);
            if build_rx(Some(4 * mb)) != want_fail || build_rx(Some(25 * mb)) != want_fail {
                o.stats.skip("size-probe:near-the-default-threshold");
                continue;
            }
            for (pre, post) in hosts {
                let pat = format!("{}{}{}", pre, pr, post);
                o.stats.evaluations += 1;
                let got = engine::build(&pat);
                let (got_fail, kind) = match &got {
                    Built::Ok(_) => (false, String::new()),
                    Built::Err(e) => (true, engine::err_kind(e)),
                    Built::Panic(p) => (true, format!("PANIC({})", p)),
                };
                let case = serde_json::json!({"pattern": pat, "probe": pr, "options": "none"});
                if let Built::Ok(re) = &got {
                    // the host must hand the probe to the automata engine in one piece (a VM-interpreted counted
                    // loop around a small piece is a different, legitimately small program)
                    if engine::is_vm(re) && !engine::program_shape(&pat).map_or(false, |(d, _)| d.iter().any(|x| x.contains(pr.trim_start_matches("(?i)")))) {
                        o.stats.skip("size-probe:not-delegated-in-one-piece");
                        continue;
                    }
                }
                if got_fail != want_fail || (got_fail && kind != "InnerError") {
                    o.violations.push(Violation { case, fail: Fail::new("default-size-limit", format!("build fails = {} (regex::Regex::new({:?}) with its default size limit; the same at 4 MiB and 25 MiB)", want_fail, pr), format!("build fails = {} {}", got_fail, kind)) });
                    return o;
                }
                // an explicit generous / tiny limit still decides
                let big = matches!(engine::build_with(&pat, |b| { b.delegate_size_limit(1 << 30); }), Built::Err(_));
                let want_big = regex::RegexBuilder::new(pr).size_limit(1 << 30).build().is_err();
                if big != want_big {
                    o.violations.push(Violation { case: serde_json::json!({"pattern": pat, "probe": pr, "options": "delegate_size_limit(1<<30)"}), fail: Fail::new("default-size-limit", format!("build fails = {}", want_big), format!("build fails = {}", big)) });
                    return o;
                }
                o.stats.class(if want_fail { "size-probe:default-rejects" } else { "size-probe:default-accepts" });
            }
        }
    }
    // patterns without any ASCII letter (the option must not depend on what the pattern text looks like)
    if o.violations.is_empty() {
        let mut c2 = cfg();
        c2.leaves = vec![Lit('é'), Lit('Я'), Class(false, vec![('é', 'é')]), Any, Backref(1), Empty, Lit('-')];
        let np = space(&c2, 3, false);
        let nt = gen::texts(&['é', 'É', 'я', 'Я', '-'], 3);
        if !stage(ctx, &mut o, &p, "patterns without ASCII letters", &np, &nt) {
            return o;
        }
    }
    let rcfg = RandCfg { lits: vec!['a', 'B', 'b', 'A'], keepout: true, ..RandCfg::core() };
    let cases = if quick { 30_000 } else { 150_000 };
    let rtexts = gen::texts(&['a', 'A', 'B'], 3);
    stage_random(ctx, &mut o, &p, "random core grammar, mixed case", &rcfg, &rtexts, cases, &|_| true);
    o
}
