//! C06: compiling any string terminates with Ok or Err (no panic, overflow, blow-up); error
//! positions are within the pattern. Cases run in worker sub-processes (crash isolation).
use crate::alloc_count;
use crate::core::*;
use crate::engine;
use crate::gen::Dec;
use fancy_regex::{Error, Expr, Regex, RegexBuilder};
use proptest::test_runner::{Config, RngAlgorithm, TestCaseError, TestError, TestRng, TestRunner};
use serde_json::{json, Value};
use std::collections::HashSet;
use std::io::Write;
use std::panic::{catch_unwind, AssertUnwindSafe};
use std::process::{Command, Stdio};

pub const VOCAB: &[&str] = &[
    "(", ")", "(?", "?<", "?P<", "?P=", "?(", "\\k<", "\\g", "{", ",", "}", "[", "[^", "]", "\\", "\\x{", "\\p{", "(?#", "(?x)", "#", "|", "*", "+", "?", ".", "^", "$", "a", "é", "😀", "0",
    "1", "99999999999", "18446744073709551615", "-1", "n", ">", "<", "'", "=", "!", ":", "-", "i", "(?i)", "(?=", "(?<=", "(?<!", "(?!", "(?>", "\\1", "\\b", "\\K", "\\G", "\\Z", "\\u", "\\U",
    "\\x", "\\h", "\\d", "\\e", " ", "\n", "&&", "\\k'", "\\g<", "(?P>", "(?(1)", "(?<n>", "(?P<n>", "\\k<n>", "\\p", "L}", "{2}", "{2,}", "{,3}", "\\k<-", "+?", "\\😀", "{18446744073709551615}", "{99999999999}", "{2,18446744073709551615}", "{4294967296}", "{1000}", "{100}",
];

const MIB: usize = 1 << 20;

fn peak_cap(len: usize) -> usize {
    256 * MIB + 4 * MIB * len
}
fn total_cap(len: usize) -> usize {
    4096 * MIB + 64 * MIB * len
}

pub struct Info {
    pub class: String,
    pub nontrivial: bool,
}

thread_local! {
    /// set in worker processes: allocations far beyond the caps are refused, which aborts the worker
    pub static ENFORCE: std::cell::Cell<bool> = const { std::cell::Cell::new(false) };
}

/// The oracle for one input string.
pub fn check_compile(s: &str) -> Result<Info, Fail> {
    let (r, usage) = if ENFORCE.with(|e| e.get()) {
        alloc_count::measure_with_budget(4 * peak_cap(s.len()), 4 * total_cap(s.len()), || catch_unwind(AssertUnwindSafe(|| Regex::new(s))))
    } else {
        alloc_count::measure(|| catch_unwind(AssertUnwindSafe(|| Regex::new(s))))
    };
    let info = match r {
        Err(e) => return Err(Fail::new("panic", "Ok or Err", format!("Regex::new PANIC({})", engine::panic_msg(e)))),
        Ok(Ok(re)) => {
            if re.as_str() != s {
                return Err(Fail::new("as_str", s, re.as_str()));
            }
            Info { class: "ok".into(), nontrivial: true }
        }
        Ok(Err(e)) => {
            let shown = catch_unwind(AssertUnwindSafe(|| format!("{} / {:?}", e, e)));
            if let Err(p) = shown {
                return Err(Fail::new("panic", "Display of the error", format!("Error Display PANIC({})", engine::panic_msg(p))));
            }
            match &e {
                Error::ParseError(pos, kind) => {
                    if *pos > s.len() {
                        return Err(Fail::new("error-position", format!("<= {}", s.len()), format!("{} ({:?})", pos, kind)));
                    }
                    let k = format!("{:?}", kind);
                    let k = k.split('(').next().unwrap_or("").to_string();
                    Info { class: format!("ParseError:{}", k), nontrivial: *pos > 0 }
                }
                Error::CompileError(c) => {
                    let k = format!("{:?}", c);
                    let k = k.split('(').next().unwrap_or("").to_string();
                    Info { class: format!("CompileError:{}", k), nontrivial: true }
                }
                other => return Err(Fail::new("error-kind", "ParseError or CompileError", format!("{:?}", other))),
            }
        }
    };
    if usage.peak_over_start > peak_cap(s.len()) {
        return Err(Fail::new("memory-peak", format!("<= {} bytes for a pattern of {} bytes", peak_cap(s.len()), s.len()), format!("{} bytes (largest single request {})", usage.peak_over_start, usage.largest)));
    }
    if usage.total > total_cap(s.len()) {
        return Err(Fail::new("alloc-volume", format!("<= {} bytes", total_cap(s.len())), format!("{} bytes", usage.total)));
    }
    // the other entry points
    let r = catch_unwind(AssertUnwindSafe(|| {
        let _ = Expr::parse_tree(s).map(|t| format!("{:?}", t.expr).len());
        RegexBuilder::new(s).delegate_size_limit(1).delegate_dfa_size_limit(1).backtrack_limit(0).case_insensitive(true).build().err()
    }));
    match r {
        Err(e) => return Err(Fail::new("panic", "Ok or Err", format!("parse_tree / RegexBuilder PANIC({})", engine::panic_msg(e)))),
        // a parse error found through the builder refers to the caller's pattern as well
        Ok(Some(Error::ParseError(pos, kind))) if pos > s.len() => {
            return Err(Fail::new("error-position", format!("<= {} (RegexBuilder with case_insensitive(true))", s.len()), format!("{} ({:?})", pos, kind)));
        }
        Ok(_) => {}
    }
    Ok(info)
}

/// enumerate all token sequences of length 0..=maxlen (stop when `f` returns false)
fn for_each_seq(maxlen: usize, mut f: impl FnMut(&str) -> bool) {
    let n = VOCAB.len() as u64;
    let mut buf = String::new();
    for len in 0..=maxlen as u32 {
        let total = n.pow(len);
        for k in 0..total {
            buf.clear();
            let mut x = k;
            for _ in 0..len {
                buf.push_str(VOCAB[(x % n) as usize]);
                x /= n;
            }
            if !f(&buf) {
                return;
            }
        }
    }
}

/// pattern literals found in the repository's tests (seed corpus for mutations)
pub fn corpus() -> Vec<String> {
    let mut out: Vec<String> = vec![];
    let lit = regex::Regex::new(r##"r#?"([^"\n]{1,80})"|"((?:[^"\\\n]|\\.){1,80})""##).unwrap();
    let mut files = vec![];
    for dir in ["/repo/tests", "/repo/tests/oniguruma", "/repo/src"] {
        if let Ok(rd) = std::fs::read_dir(dir) {
            let mut v: Vec<_> = rd.filter_map(|e| e.ok()).map(|e| e.path()).filter(|p| p.is_file()).collect();
            v.sort();
            files.extend(v);
        }
    }
    for f in files {
        let Ok(s) = std::fs::read_to_string(&f) else { continue };
        for c in lit.captures_iter(&s) {
            let m = c.get(1).or(c.get(2)).unwrap().as_str();
            let un = m.replace("\\\\", "\\").replace("\\\"", "\"");
            if un.chars().any(|ch| "\\()[]{}?*+|^$.".contains(ch)) {
                out.push(un);
            }
        }
        if out.len() > 4000 {
            break;
        }
    }
    // valid patterns printed from the harness AST
    for n in crate::props::product_space(true, 1).iter().step_by(7) {
        out.push(n.to_pattern());
    }
    out.sort();
    out.dedup();
    out
}

fn mutate(corpus: &[String], bytes: &[u8]) -> String {
    let mut d = Dec::new(bytes);
    let hi = d.u8() as usize;
    let lo = d.u8() as usize;
    let mut s: Vec<char> = corpus[((hi << 8) | lo) * corpus.len() >> 16].chars().collect();
    let k = 1 + d.below(4);
    for _ in 0..k {
        let op = d.below(7);
        let i = if s.is_empty() { 0 } else { d.below(s.len().min(255)) };
        match op {
            0 => {
                if !s.is_empty() {
                    s.remove(i);
                }
            }
            1 => {
                if !s.is_empty() {
                    let c = s[i];
                    s.insert(i, c);
                }
            }
            2 => {
                if s.len() >= 2 {
                    let j = d.below(s.len().min(255));
                    s.swap(i, j);
                }
            }
            3 | 4 => {
                let tok = VOCAB[d.below(VOCAB.len())];
                let at = i.min(s.len());
                for (k, c) in tok.chars().enumerate() {
                    s.insert(at + k, c);
                }
            }
            5 => {
                let hi = d.u8() as usize;
                let lo = d.u8() as usize;
                let other: Vec<char> = corpus[((hi << 8) | lo) * corpus.len() >> 16].chars().collect();
                let cut = if other.is_empty() { 0 } else { d.below(other.len().min(255)) };
                s.truncate(i);
                s.extend_from_slice(&other[cut..]);
            }
            _ => {
                s.truncate(i);
            }
        }
    }
    s.into_iter().collect()
}

/// deeply nested inputs: every opener (and pairs of openers) repeated around the recursion limit and far beyond
pub fn nesting_inputs() -> Vec<String> {
    const OPENERS: &[(&str, &str)] = &[
        ("(", ")"), ("(?:", ")"), ("(?=", ")"), ("(?!", ")"), ("(?<=", ")"), ("(?<!", ")"), ("(?>", ")"), ("(?<n>", ")"), ("(?i:", ")"), ("(?(a)", ")"), ("(?(1)", ")"), ("(?(a)b|", ")"),
        ("(?((", "))"), ("(?:", "){2}"), ("(?:", "){2}\\b"), ("(", "){2,2}"), ("[", "]"), ("[a&&[", "]]"), ("(?#", ")"), ("a|(", ")"), ("(a", ")*"), ("(?x: (", "))"), ("\\(", ")"),
    ];
    let depths = [31usize, 62, 63, 64, 65, 66, 130, 1000, 20_000, 120_000];
    let mut out = vec![];
    for &(o, c) in OPENERS {
        for &d in &depths {
            out.push(format!("{}a{}", o.repeat(d), c.repeat(d)));
            out.push(format!("{}a", o.repeat(d)));
            out.push(format!("(b)?{}\\1{}", o.repeat(d), c.repeat(d)));
        }
    }
    for (i, &(o1, c1)) in OPENERS.iter().enumerate() {
        for &(o2, c2) in OPENERS.iter().skip(i + 1).step_by(3) {
            for &d in &[33usize, 70, 5000] {
                out.push(format!("{}a{}", format!("{}{}", o1, o2).repeat(d), format!("{}{}", c2, c1).repeat(d)));
            }
        }
    }
    out
}

/// (prefix, unit, suffix): patterns made of one unit repeated many times
pub fn growth_units() -> Vec<(&'static str, &'static str, &'static str)> {
    vec![
        ("", "ab|", "c"), ("", "(?:ab)", ""), ("", "a", ""), ("", "[ab]", ""), ("", "(?=a)", ""), ("(?=)", "ab|", "c"), ("(?=)", "(?:ab)x", ""), ("", "(ab)", "\\1"),
        ("(?x)", "# c\n", "a"), ("(?x)", " a # c\n", ""), ("(?x) (?=)", "# c\n ", "a"), ("", "(?#c)", "a"), ("", "\\x41", ""), ("", "a?", ""), ("(?i)", "ab", "\\b"),
    ]
}

fn random_tokens(bytes: &[u8]) -> String {
    let mut d = Dec::new(bytes);
    let n = 4 + d.below(12);
    (0..n).map(|_| VOCAB[d.below(VOCAB.len())]).collect()
}

fn shrink_string(s: &str, kind: &str) -> String {
    let mut cur: Vec<char> = s.chars().collect();
    let fails = |v: &[char]| -> bool { matches!(check_compile(&v.iter().collect::<String>()), Err(f) if f.kind == kind) };
    let mut budget = 2000;
    loop {
        let mut improved = false;
        for i in 0..cur.len() {
            if budget == 0 {
                break;
            }
            budget -= 1;
            let mut c = cur.clone();
            c.remove(i);
            if fails(&c) {
                cur = c;
                improved = true;
                break;
            }
        }
        if !improved {
            break;
        }
    }
    cur.into_iter().collect()
}

// ---------------------------------------------------------------------------------------------
// worker side

/// `frv C06 --worker <stage> <shard> <nshards> <param> [trace]` : prints one JSON line
pub fn worker(ctx: &RunCtx, args: &[String]) {
    let stage = args[0].as_str();
    let shard: u64 = args[1].parse().unwrap();
    let nshards: u64 = args[2].parse().unwrap();
    let param: u64 = args[3].parse().unwrap();
    let trace = args.get(4).map_or(false, |s| s == "trace");
    limit_address_space(12 << 30);
    ENFORCE.with(|e| e.set(true));
    let mut st = Stats::default();
    let mut seen: HashSet<u64> = HashSet::new();
    let mut failure: Option<(String, Fail)> = None;
    let mut hashes: Vec<u64> = vec![];
    let run_one = |s: &str, st: &mut Stats, seen: &mut HashSet<u64>, hashes: &mut Vec<u64>, record: bool| -> Option<Fail> {
        let h = hash64(&s);
        if !seen.insert(h) {
            return None;
        }
        if trace {
            eprintln!("TRACE {}", serde_json::to_string(s).unwrap());
            let _ = std::io::stderr().flush();
        }
        st.evaluations += 1;
        match check_compile(s) {
            Ok(info) => {
                st.class(&info.class);
                if info.nontrivial {
                    if record {
                        hashes.push(h);
                    } else {
                        st.nontrivial_add(h, 1);
                    }
                    if st.samples.len() < 3 && st.evaluations % 5003 == 1 {
                        st.sample(json!({"input": s, "outcome": info.class}));
                    }
                }
                None
            }
            Err(f) => Some(f),
        }
    };
    match stage {
        "tokens" => {
            for_each_seq(param as usize, |s| {
                if hash64(&s) % nshards != shard {
                    return true;
                }
                if let Some(f) = run_one(s, &mut st, &mut seen, &mut hashes, false) {
                    failure = Some((s.to_string(), f));
                    return false;
                }
                true
            });
        }
        "nesting" => {
            let mut k = 0u64;
            for input in nesting_inputs() {
                k += 1;
                if k % nshards != shard {
                    continue;
                }
                if let Some(f) = run_one(&input, &mut st, &mut seen, &mut hashes, false) {
                    failure = Some((input, f));
                    break;
                }
            }
        }
        "growth" => {
            // the same unit repeated n and 4n times: four times the pattern may cost about four times the memory
            let mut k = 0u64;
            'units: for (pre, unit, post) in growth_units() {
                for n in [500usize, 4_000, 60_000] {
                    k += 1;
                    if k % nshards != shard || unit.len() * n * 4 > 1_500_000 {
                        continue;
                    }
                    let small = format!("{}{}{}", pre, unit.repeat(n), post);
                    let big = format!("{}{}{}", pre, unit.repeat(4 * n), post);
                    let mut peaks = [0usize; 2];
                    for (i, input) in [&small, &big].into_iter().enumerate() {
                        if trace {
                            eprintln!("TRACE {}", serde_json::to_string(input).unwrap_or_default());
                        }
                        let (r, usage) = alloc_count::measure(|| catch_unwind(AssertUnwindSafe(|| Regex::new(input).is_ok())));
                        if r.is_err() {
                            failure = Some((input.clone(), Fail::new("panic", "Ok or Err", "Regex::new panicked")));
                            break 'units;
                        }
                        peaks[i] = usage.peak_over_start;
                        st.evaluations += 1;
                        st.class("growth:measured");
                    }
                    if peaks[1] > 8 * peaks[0] + (2 << 20) {
                        failure = Some((big.clone(), Fail::new("memory-growth", format!("peak heap for the unit {:?} repeated {} times <= 8 x the peak for {} times ({} bytes) + 2 MiB", unit, 4 * n, n, peaks[0]), format!("{} bytes", peaks[1]))));
                        break 'units;
                    }
                    st.nontrivial_add(hash64(&(unit, n)), 1);
                }
            }
        }
        "random-tokens" | "mutations" => {
            let corp = if stage == "mutations" { corpus() } else { vec![] };
            let config = Config { cases: param as u32, failure_persistence: None, max_shrink_iters: 2048, ..Config::default() };
            let rng = TestRng::from_seed(RngAlgorithm::ChaCha, &ctx.subseed(stage, shard));
            let mut runner = TestRunner::new_with_rng(config, rng);
            let strat = proptest::collection::vec(proptest::num::u8::ANY, 0..48);
            let cell = std::cell::RefCell::new((&mut st, &mut seen, &mut hashes));
            let failed = std::cell::Cell::new(false);
            let decode = |bytes: &[u8]| if stage == "mutations" { mutate(&corp, bytes) } else { random_tokens(bytes) };
            let res = runner.run(&strat, |bytes| {
                let s = decode(&bytes);
                if failed.get() {
                    return match check_compile(&s) {
                        Ok(_) => Ok(()),
                        Err(f) => Err(TestCaseError::fail(f.kind)),
                    };
                }
                let mut g = cell.borrow_mut();
                let (st, seen, hashes) = &mut *g;
                match run_one(&s, st, seen, hashes, true) {
                    None => Ok(()),
                    Some(f) => {
                        failed.set(true);
                        Err(TestCaseError::fail(f.kind))
                    }
                }
            });
            if let Err(TestError::Fail(_, bytes)) = res {
                let s = decode(&bytes);
                if let Err(f) = check_compile(&s) {
                    failure = Some((s, f));
                }
            }
        }
        _ => panic!("unknown stage"),
    }
    let fail_json = failure.map(|(s, f)| {
        let small = shrink_string(&s, &f.kind);
        let f2 = check_compile(&small).err().unwrap_or(f);
        json!({"input": small, "kind": f2.kind, "expected": f2.expected, "actual": f2.actual})
    });
    let out = json!({
        "evaluations": st.evaluations,
        "nontrivial": st.distinct_nontrivial(),
        "hashes": hashes,
        "classes": st.classes,
        "samples": st.samples,
        "failure": fail_json,
    });
    println!("RESULT {}", out);
}

fn limit_address_space(bytes: u64) {
    unsafe {
        let lim = libc::rlimit { rlim_cur: bytes, rlim_max: bytes };
        libc::setrlimit(libc::RLIMIT_AS, &lim);
    }
}

// ---------------------------------------------------------------------------------------------
// parent side

struct WorkerOut {
    result: Option<Value>,
    crashed: Option<String>,
}

fn spawn_worker(ctx: &RunCtx, stage: &str, shard: u64, nshards: u64, param: u64, trace: bool) -> std::process::Child {
    let exe = std::env::current_exe().expect("current_exe");
    let mut c = Command::new(exe);
    c.arg(ctx.prop).arg("--worker").arg(stage).arg(shard.to_string()).arg(nshards.to_string()).arg(param.to_string());
    if trace {
        c.arg("trace");
    }
    c.env("VERIF_SEED", ctx.seed.to_string()).env("VERIF_THREADS", "1").stdout(Stdio::piped()).stderr(Stdio::piped());
    c.spawn().expect("spawn worker")
}

fn collect(child: std::process::Child) -> WorkerOut {
    let out = child.wait_with_output().expect("wait worker");
    let stdout = String::from_utf8_lossy(&out.stdout).to_string();
    let result = stdout.lines().find_map(|l| l.strip_prefix("RESULT ")).and_then(|j| serde_json::from_str::<Value>(j).ok());
    let crashed = if result.is_none() {
        use std::os::unix::process::ExitStatusExt;
        let stderr = String::from_utf8_lossy(&out.stderr).to_string();
        let last_trace = stderr.lines().rev().find_map(|l| l.strip_prefix("TRACE ")).map(|s| s.to_string());
        Some(format!("signal={:?} code={:?} last_trace={} stderr_tail={}", out.status.signal(), out.status.code(), last_trace.unwrap_or_default(), stderr.lines().rev().take(3).collect::<Vec<_>>().join(" | ")))
    } else {
        None
    };
    WorkerOut { result, crashed }
}

fn run_stage(ctx: &RunCtx, o: &mut Outcome, stage: &str, param: u64, hashes: &mut HashSet<u64>) {
    if !o.violations.is_empty() || o.infra_error.is_some() {
        return;
    }
    let t0 = std::time::Instant::now();
    let nshards = 16u64;
    let children: Vec<_> = (0..nshards).map(|s| spawn_worker(ctx, stage, s, nshards, param, false)).collect();
    let outs: Vec<WorkerOut> = children.into_iter().map(collect).collect();
    let mut evals = 0u64;
    for (shard, w) in outs.iter().enumerate() {
        match (&w.result, &w.crashed) {
            (Some(r), _) => {
                let e = r["evaluations"].as_u64().unwrap_or(0);
                evals += e;
                o.stats.evaluations += e;
                o.stats.patterns += e;
                let n = r["nontrivial"].as_u64().unwrap_or(0);
                if n > 0 {
                    // hash-partitioned shards are disjoint by construction
                    o.stats.nontrivial_add(hash64(&(stage, param, shard)), n as u32);
                }
                for h in r["hashes"].as_array().cloned().unwrap_or_default() {
                    if let Some(h) = h.as_u64() {
                        hashes.insert(h);
                    }
                }
                if let Some(c) = r["classes"].as_object() {
                    for (k, v) in c {
                        o.stats.class_n(k, v.as_u64().unwrap_or(0));
                    }
                }
                for s in r["samples"].as_array().cloned().unwrap_or_default() {
                    if o.stats.samples.len() < 16 {
                        o.stats.samples.push(s);
                    }
                }
                if let Some(f) = r.get("failure").filter(|f| !f.is_null()).filter(|f| !o.violations.iter().any(|v| v.case["input"] == f["input"])) {
                    // one violation per failure kind: keep the shortest input
                    let kind = f["kind"].as_str().unwrap_or("?").to_string();
                    let len = f["input"].as_str().map_or(0, |s| s.len());
                    if let Some(pos) = o.violations.iter().position(|v| v.fail.kind == kind) {
                        if o.violations[pos].case["input"].as_str().map_or(0, |s| s.len()) <= len {
                            continue;
                        }
                        o.violations.remove(pos);
                    }
                    o.violations.push(Violation {
                        case: json!({"input": f["input"]}),
                        fail: Fail::new(f["kind"].as_str().unwrap_or("?"), f["expected"].as_str().unwrap_or(""), f["actual"].as_str().unwrap_or("")),
                    });
                }
            }
            (None, Some(_)) => {
                // the worker died: re-run the shard with tracing to pinpoint the input in flight
                let t = collect(spawn_worker(ctx, stage, shard as u64, nshards, param, true));
                let info = t.crashed.clone().unwrap_or_else(|| "worker did not crash again".into());
                let input = info.split("last_trace=").nth(1).and_then(|s| s.split(" stderr_tail=").next()).and_then(|s| serde_json::from_str::<String>(s).ok());
                match (input, t.crashed) {
                    (Some(input), Some(c)) if c.contains("signal=Some") => {
                        o.violations.push(Violation { case: json!({"input": input, "crash": true}), fail: Fail::new("crash", "Regex::new returns", c) });
                    }
                    (_, c) => {
                        o.infra_error = Some(format!("worker {} of stage {} died and could not be pinpointed: {:?}", shard, stage, c));
                    }
                }
            }
            _ => {}
        }
    }
    o.generators.push(json!({"stage": stage, "param": param, "workers": nshards, "evaluations": evals, "wall_s": t0.elapsed().as_secs_f64()}));
}

pub fn run(ctx: &RunCtx) -> Outcome {
    let mut o = Outcome::default();
    o.rule = format!("inputs: (a) every sequence of <= k tokens over a {}-token vocabulary of syntax fragments (unbalanced delimiters, multi-byte characters, huge numbers, every group opener / escape prefix), (b) proptest random longer token sequences, (c) every group opener (and pairs) nested 31..120000 deep with and without closers (among them counted repeats `(?:..){{2}}` around plain and VM-interpreted cores, whose program must stay proportional to the pattern), (c') one unit (alternation branch, group, literal, class, look-around, comment line in free-spacing mode, ..) repeated n and 4n times for n up to 60000: no panic / crash, and the peak heap of the longer one is at most 8 x that of the shorter + 2 MiB, (d) proptest character-level mutations (delete, duplicate, swap, token insertion, splice, truncate) of pattern literals found in the repository's tests and of valid patterns printed from the harness AST. Oracle per input, in a worker process with a counting allocator and RLIMIT_AS: Regex::new / Expr::parse_tree / RegexBuilder (tiny limits) return without panic (overflow checks on), Error Display works, ParseError position <= len (also through RegexBuilder with case_insensitive(true)), peak heap <= 256 MiB + 4 MiB*len, cumulative allocation <= 4 GiB + 64 MiB*len; a worker killed by a signal is re-run with tracing and the input in flight is the counterexample. Non-trivial = the input parsed, or failed at a position > 0. Distinct = distinct input strings (hash-partitioned over workers).", VOCAB.len());
    o.assumptions = vec!["wall-clock time is only a watchdog; time proportionality is checked through allocation volume".into()];
    o.required_classes = vec!["ok".into(), "ParseError:UnclosedOpenParen".into(), "CompileError:InvalidBackref".into()];
    let quick = ctx.quick();
    let mut hashes = HashSet::new();
    let k = if quick { 3 } else { 4 };
    run_stage(ctx, &mut o, "tokens", k, &mut hashes);
    o.exhaustive = Some(format!("all sequences of <= {} tokens over the {}-token vocabulary", k, VOCAB.len()));
    run_stage(ctx, &mut o, "nesting", 0, &mut hashes);
    run_stage(ctx, &mut o, "growth", 0, &mut hashes);
    run_stage(ctx, &mut o, "random-tokens", if quick { 40_000 } else { 400_000 }, &mut hashes);
    run_stage(ctx, &mut o, "mutations", if quick { 80_000 } else { 800_000 }, &mut hashes);
    for (i, h) in hashes.iter().enumerate() {
        let _ = i;
        o.stats.nontrivial_add(*h, 1);
    }
    if !quick && o.violations.is_empty() && o.infra_error.is_none() {
        // coverage-guided campaign on raw bytes (ASan, debug assertions), same oracle inside the target
        let mut seeds: Vec<Vec<u8>> = corpus().into_iter().step_by(5).take(400).map(|s| s.into_bytes()).collect();
        seeds.extend(nesting_inputs().into_iter().filter(|s| s.len() < 400).take(40).map(|s| s.into_bytes()));
        match crate::fuzzrun::campaign(ctx, "fuzz_compile", 16, 60_000, 96, &seeds) {
            Ok(c) => {
                o.stats.evaluations += c.runs_done;
                o.extra.insert("fuzz".into(), c.evidence);
                for a in c.artifacts {
                    let data = std::fs::read(&a).unwrap_or_default();
                    match std::str::from_utf8(&data) {
                        Ok(s) => match check_compile(s) {
                            Err(f) => {
                                let small = shrink_string(s, &f.kind);
                                let f2 = check_compile(&small).err().unwrap_or(f);
                                o.violations.push(Violation { case: json!({"input": small, "from_fuzz_artifact": a.display().to_string()}), fail: f2 });
                                break;
                            }
                            Ok(_) => {
                                // crashes only in the sanitizer build: re-run in a child process to classify
                                o.violations.push(Violation { case: json!({"input": s, "crash": true, "from_fuzz_artifact": a.display().to_string()}), fail: Fail::new("crash", "Regex::new returns", "libFuzzer artifact (crash / sanitizer report / timeout) that the in-process oracle does not reproduce") });
                                break;
                            }
                        },
                        Err(_) => {}
                    }
                }
            }
            Err(e) => o.infra_error = Some(e),
        }
    }
    o
}

pub fn replay(_ctx: &RunCtx, case: &Value) -> Result<Option<Fail>, String> {
    let s = case.get("input").and_then(|s| s.as_str()).ok_or("no input")?;
    if case.get("crash").and_then(|c| c.as_bool()).unwrap_or(false) {
        // run in a child so that a crash is observable
        let exe = std::env::current_exe().map_err(|e| e.to_string())?;
        let out = Command::new(exe).arg("C06").arg("--one").arg(s).output().map_err(|e| e.to_string())?;
        use std::os::unix::process::ExitStatusExt;
        if out.status.signal().is_some() {
            return Ok(Some(Fail::new("crash", "Regex::new returns", format!("signal {:?}", out.status.signal()))));
        }
        let so = String::from_utf8_lossy(&out.stdout).to_string();
        if let Some(l) = so.lines().find(|l| l.starts_with("FAIL ")) {
            return Ok(Some(Fail::new("fail", "", l)));
        }
        return Ok(None);
    }
    Ok(check_compile(s).err())
}

pub fn one(s: &str) {
    limit_address_space(12 << 30);
    ENFORCE.with(|e| e.set(true));
    match check_compile(s) {
        Ok(i) => println!("OK {}", i.class),
        Err(f) => println!("FAIL {} {} {}", f.kind, f.expected, f.actual),
    }
}
