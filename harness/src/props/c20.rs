//! C20: backtracking restores, and atomic commit preserves, exactly the right state. Stateful
//! model-based test of the VM's private `State` (through the verif-hooks wrapper) against a
//! whole-state-copy model, plus a program-level companion on atomic / look-around patterns.
use super::c01::stage;
use super::diffref::{has_commit_construct, DiffRef};
use crate::core::*;
use crate::engine;
use crate::gen::Dec;
use fancy_regex::verif_hooks::VmState;
use proptest::test_runner::{Config, RngAlgorithm, TestCaseError, TestError, TestRng, TestRunner};
use rayon::prelude::*;
use serde_json::{json, Value};
use std::panic::{catch_unwind, AssertUnwindSafe};

const N_SLOTS: usize = 3;
/// real slot numbers of the three logical slots in the "wide" layout (0, 64 and 129 alias modulo 64 / 128)
const WIDE: [usize; 3] = [0, 64, 129];
const WIDE_SLOTS: usize = 130;
/// layout 2 ("many"): 24 logical slots at real slots 0..24, so that one frame can collect a long undo log
const MANY_SLOTS: usize = 24;

/// number of logical slots of a layout (0 = narrow, 1 = wide, 2 = many)
fn nlog(lay: u8) -> usize {
    if lay == 2 {
        MANY_SLOTS
    } else {
        N_SLOTS
    }
}
fn nreal(lay: u8) -> usize {
    match lay {
        1 => WIDE_SLOTS,
        2 => MANY_SLOTS,
        _ => N_SLOTS,
    }
}
fn rslot(lay: u8, s: usize) -> usize {
    if lay == 1 {
        WIDE[s]
    } else {
        s
    }
}
fn suffix(lay: u8) -> &'static str {
    match lay {
        1 => "#wide",
        2 => "#many",
        _ => "",
    }
}
fn lay_of_kind(kind: &str) -> u8 {
    if kind.ends_with("#wide") {
        1
    } else if kind.ends_with("#many") {
        2
    } else {
        0
    }
}
fn strip_kind(kind: &str) -> &str {
    kind.trim_end_matches("#wide").trim_end_matches("#many")
}

#[derive(Clone, Copy, Debug, PartialEq, Eq)]
pub enum Op {
    Push,
    Pop,
    Save(usize, usize),
    Enter,
    Commit,
    SPush(usize),
    SPop,
}

const OPS: [Op; 16] = [
    Op::Push,
    Op::Pop,
    Op::Save(0, 0),
    Op::Save(0, 1),
    Op::Save(0, 2),
    Op::Save(1, 0),
    Op::Save(1, 1),
    Op::Save(1, 2),
    Op::Save(2, 0),
    Op::Save(2, 1),
    Op::Save(2, 2),
    Op::Enter,
    Op::Commit,
    Op::SPush(7),
    Op::SPush(8),
    Op::SPop,
];

fn op_json(o: &Op) -> Value {
    match o {
        Op::Push => json!("push"),
        Op::Pop => json!("pop"),
        Op::Save(s, v) => json!(["save", s, v]),
        Op::Enter => json!("enter_atomic"),
        Op::Commit => json!("commit_atomic"),
        Op::SPush(v) => json!(["stack_push", v]),
        Op::SPop => json!("stack_pop"),
    }
}

fn op_from(v: &Value) -> Option<Op> {
    if let Some(s) = v.as_str() {
        return Some(match s {
            "push" => Op::Push,
            "pop" => Op::Pop,
            "enter_atomic" => Op::Enter,
            "commit_atomic" => Op::Commit,
            "stack_pop" => Op::SPop,
            _ => return None,
        });
    }
    let a = v.as_array()?;
    match a.first()?.as_str()? {
        "save" => Some(Op::Save(a.get(1)?.as_u64()? as usize, a.get(2)?.as_u64()? as usize)),
        "stack_push" => Some(Op::SPush(a.get(1)?.as_u64()? as usize)),
        _ => None,
    }
}

#[derive(Clone, Debug, PartialEq, Eq)]
struct MState {
    slots: Vec<usize>,
    /// (value, pushed by enter_atomic)
    aux: Vec<(usize, bool)>,
}

struct Model {
    cur: MState,
    branches: Vec<(usize, usize, MState)>,
    /// per open branch level (and the base level): slots written since that level was created
    written: Vec<Vec<bool>>,
    interesting_pending: bool,
}

pub enum Run {
    /// the sequence violates a precondition at step i (not a verdict)
    Invalid(usize),
    Ok { nontrivial: bool, commits: u32, cut_branches: u32 },
    Fail(usize, Fail),
}

fn read_real(real: &VmState, lay: u8) -> (Vec<usize>, usize, Vec<usize>) {
    let nreal = nreal(lay);
    let slots: Vec<usize> = (0..nlog(lay)).map(|i| real.get(rslot(lay, i))).collect();
    let n = real.n_slots();
    let aux: Vec<usize> = if n > nreal {
        let sp = real.get(nreal);
        (nreal + 1..sp).map(|i| real.get(i)).collect()
    } else {
        vec![]
    };
    (slots, real.backtrack_count(), aux)
}

fn compare(step: usize, what: &str, real: &VmState, m: &Model, lay: u8) -> Option<Fail> {
    let (slots, count, aux) = read_real(real, lay);
    let maux: Vec<usize> = m.cur.aux.iter().map(|(v, _)| *v).collect();
    if slots != m.cur.slots || count != m.branches.len() || aux != maux {
        return Some(Fail::new(
            "state-mismatch",
            format!("after step {} ({}): slots {:?}, {} branches, auxiliary stack {:?}", step, what, show(&m.cur.slots), m.branches.len(), maux),
            format!("slots {:?}, {} branches, auxiliary stack {:?}", show(&slots), count, aux),
        ));
    }
    None
}

fn show(v: &[usize]) -> Vec<String> {
    v.iter().map(|x| if *x == usize::MAX { "unset".to_string() } else { x.to_string() }).collect()
}

pub fn execute(ops: &[Op], unwind: bool) -> Run {
    execute_layout(ops, unwind, 0)
}

/// `wide`: the three logical slots live at real slots 0, 64 and 129 of a 130-slot state
pub fn execute_layout(ops: &[Op], unwind: bool, lay: u8) -> Run {
    let r = catch_unwind(AssertUnwindSafe(|| execute_inner(ops, unwind, lay)));
    match r {
        Ok(r) => r,
        Err(e) => Run::Fail(ops.len(), Fail::new("panic", "no panic under the VM's own preconditions", format!("PANIC({})", engine::panic_msg(e)))),
    }
}

fn execute_inner(ops: &[Op], unwind: bool, lay: u8) -> Run {
    let n_slots = nlog(lay);
    let mut real = VmState::new(nreal(lay), 1_000_000);
    let mut m = Model { cur: MState { slots: vec![usize::MAX; n_slots], aux: vec![] }, branches: vec![], written: vec![vec![false; n_slots]], interesting_pending: false };
    let mut nontrivial = false;
    let mut commits = 0;
    let mut cut_branches = 0;
    let mut pc_counter = 100;
    for (i, op) in ops.iter().enumerate() {
        match *op {
            Op::Push => {
                pc_counter += 1;
                m.branches.push((pc_counter, pc_counter * 3, m.cur.clone()));
                m.written.push(vec![false; n_slots]);
                if real.push(pc_counter, pc_counter * 3).is_err() {
                    return Run::Fail(i, Fail::new("push-error", "Ok", "Err"));
                }
            }
            Op::Pop => {
                let Some((pc, ix, snap)) = m.branches.pop() else { return Run::Invalid(i) };
                m.written.pop();
                m.cur = snap;
                let got = real.pop();
                if got != (pc, ix) {
                    return Run::Fail(i, Fail::new("pop-result", format!("{:?}", (pc, ix)), format!("{:?}", got)));
                }
                if m.interesting_pending {
                    nontrivial = true;
                    m.interesting_pending = false;
                }
            }
            Op::Save(s, v) => {
                if s >= n_slots {
                    return Run::Invalid(i);
                }
                m.cur.slots[s] = v;
                m.written.last_mut().unwrap()[s] = true;
                real.save(rslot(lay, s), v);
            }
            Op::Enter => {
                m.cur.aux.push((m.branches.len(), true));
                real.stack_push(real.backtrack_count());
            }
            Op::Commit => {
                match m.cur.aux.last() {
                    Some((_, true)) => {}
                    _ => return Run::Invalid(i),
                }
                let (c, _) = m.cur.aux.pop().unwrap();
                let discarded = m.branches.len() - c;
                if discarded >= 2 {
                    // writes to the same slot on >= 2 discarded levels?
                    let levels = &m.written[c + 1..];
                    for s in 0..n_slots {
                        if levels.iter().filter(|w| w[s]).count() >= 2 {
                            m.interesting_pending = true;
                        }
                    }
                }
                commits += 1;
                cut_branches += discarded as u32;
                // the writes of the discarded levels now belong to the level we cut back to
                let merged: Vec<Vec<bool>> = m.written.drain(c + 1..).collect();
                for w in merged {
                    for s in 0..n_slots {
                        if w[s] {
                            m.written[c][s] = true;
                        }
                    }
                }
                m.branches.truncate(c);
                let count = real.stack_pop();
                if count != c {
                    return Run::Fail(i, Fail::new("commit-entry", format!("{}", c), format!("{}", count)));
                }
                real.backtrack_cut(count);
            }
            Op::SPush(v) => {
                m.cur.aux.push((v, false));
                real.stack_push(v);
            }
            Op::SPop => {
                match m.cur.aux.last() {
                    Some((_, false)) => {}
                    _ => return Run::Invalid(i),
                }
                let (v, _) = m.cur.aux.pop().unwrap();
                let got = real.stack_pop();
                if got != v {
                    return Run::Fail(i, Fail::new("stack_pop-result", format!("{}", v), format!("{}", got)));
                }
            }
        }
        if let Some(f) = compare(i, &format!("{:?}", op), &real, &m, lay) {
            return Run::Fail(i, f);
        }
    }
    if unwind {
        // a later backtrack still restores the pre-group values: unwind everything
        let mut k = 0;
        while let Some((pc, ix, snap)) = m.branches.pop() {
            m.written.pop();
            m.cur = snap;
            let got = real.pop();
            if got != (pc, ix) {
                return Run::Fail(ops.len() + k, Fail::new("pop-result", format!("{:?}", (pc, ix)), format!("{:?} (final unwind)", got)));
            }
            if let Some(f) = compare(ops.len() + k, "final unwind pop", &real, &m, lay) {
                return Run::Fail(ops.len() + k, f);
            }
            if m.interesting_pending {
                nontrivial = true;
                m.interesting_pending = false;
            }
            k += 1;
        }
    }
    Run::Ok { nontrivial, commits, cut_branches }
}

/// decode a history from bytes: single operations and bursts (push + writes to several slots)
fn decode_ops(bytes: &[u8]) -> Vec<Op> {
    decode_ops_for(bytes, 0)
}

fn decode_ops_for(bytes: &[u8], lay: u8) -> Vec<Op> {
    let mut d = Dec::new(bytes);
    let mut ops = vec![];
    let n = nlog(lay);
    while !d.exhausted() && ops.len() < 200 {
        let k = d.below(if n > 3 { 23 } else { 20 });
        match k {
            0..=15 if n > 3 && matches!(OPS[k], Op::Save(..)) => ops.push(Op::Save(d.below(n), d.below(3))),
            20..=22 => {
                // one frame with a long undo log: writes to many different slots, then the first one again
                let start = d.below(n);
                let len = 8 + d.below(n - 8 + 1);
                for j in 0..len {
                    ops.push(Op::Save((start + j) % n, 1 + (j % 2)));
                }
                ops.push(Op::Save(start, 0));
                if d.below(2) == 0 {
                    ops.push(Op::Save((start + 1) % n, 0));
                }
            }
            0..=15 => ops.push(OPS[k]),
            16 | 17 => {
                // burst: n x (push, save to 1..3 slots)
                let n = 2 + d.below(12);
                for _ in 0..n {
                    ops.push(Op::Push);
                    let w = 1 + d.below(3);
                    for _ in 0..w {
                        ops.push(Op::Save(d.below(n), d.below(3)));
                    }
                }
            }
            18 => {
                ops.push(Op::Enter);
            }
            _ => {
                ops.push(Op::Commit);
                ops.push(Op::Pop);
            }
        }
    }
    ops
}

fn valid_prefix(ops: &[Op]) -> Vec<Op> {
    // drop operations whose precondition does not hold (keeps generated histories dense)
    let mut branches: Vec<usize> = vec![]; // aux depth at push time
    let mut aux: Vec<(bool, usize)> = vec![]; // (atomic, branches at push)
    let mut out = vec![];
    for op in ops {
        match op {
            Op::Push => {
                branches.push(aux.len());
                out.push(*op);
            }
            Op::Pop => {
                if let Some(d) = branches.pop() {
                    aux.truncate(d);
                    out.push(*op);
                }
            }
            Op::Enter => {
                aux.push((true, branches.len()));
                out.push(*op);
            }
            Op::SPush(_) => {
                aux.push((false, branches.len()));
                out.push(*op);
            }
            Op::Commit => {
                if let Some((true, c)) = aux.last().copied() {
                    aux.pop();
                    // the model snapshots aux per branch; depth bookkeeping for the kept branches is unchanged
                    branches.truncate(c);
                    out.push(*op);
                }
            }
            Op::SPop => {
                if let Some((false, _)) = aux.last().copied() {
                    aux.pop();
                    out.push(*op);
                }
            }
            Op::Save(..) => out.push(*op),
        }
    }
    out
}

fn shrink_ops(ops: &[Op], kind: &str) -> Vec<Op> {
    let lay = lay_of_kind(kind);
    let kind = strip_kind(kind);
    let execute = |o: &[Op], u: bool| execute_layout(o, u, lay);
    let mut cur = ops.to_vec();
    loop {
        let mut improved = false;
        for i in 0..cur.len() {
            let mut c = cur.clone();
            c.remove(i);
            if matches!(execute(&c, true), Run::Fail(_, f) if f.kind == kind) {
                cur = c;
                improved = true;
                break;
            }
        }
        if !improved {
            return cur;
        }
    }
}

fn violation(ops: &[Op], f: Fail) -> Violation {
    let lay = lay_of_kind(&f.kind);
    let small = shrink_ops(ops, &f.kind);
    let f2 = match execute_layout(&small, true, lay) {
        Run::Fail(_, f2) => f2,
        _ => Fail { kind: strip_kind(&f.kind).to_string(), ..f },
    };
    Violation { case: json!({"ops": small.iter().map(op_json).collect::<Vec<_>>(), "slots": nlog(lay), "wide": lay == 1, "layout": lay}), fail: f2 }
}

pub fn run(ctx: &RunCtx) -> Outcome {
    let mut o = Outcome::default();
    o.rule = "histories over the VM's backtracking state (verif-hooks wrapper): push (create alternative), pop (abandon), save(slot in 0..3, value in 0..3; the three slots are laid out either as 0,1,2 or, in the wide layout, as slots 0, 64 and 129 of a 130-slot state; a third layout of the random histories has 24 slots and runs of 8..24 writes to different slots within one frame followed by a second write to the first), enter_atomic (= stack_push(backtrack_count())), commit_atomic (= backtrack_cut(stack_pop())), raw stack_push / stack_pop; generated only under the VM's own preconditions (pop needs a branch, commit needs an atomic entry on top of the auxiliary stack, which - being restored on backtrack - was pushed on the current path). Exhaustive up to a length bound, proptest histories with bursts (push + writes, up to ~160 operations) beyond. Oracle: whole-state-copy model; after EVERY step all slots, the branch count, the auxiliary stack contents and, on pop, the returned (pc, ix) are compared; at the end both are unwound completely and compared after every pop. Non-trivial = a commit that discards >= 2 branches with writes to the same slot on >= 2 discarded levels, followed by a pop. Distinct = distinct operation sequences. Program-level companion: captures of atomic / look-around / conditional patterns against the reference matcher (as C02).".into();
    o.assumptions = vec!["the wrapper VmState forwards to the private State unchanged (src/verif_hooks.rs)".into()];
    o.required_classes = vec!["history:commit-cuts>=2".into(), "history:valid".into(), "history:24-slot-layout".into()];
    let maxlen = if ctx.quick() { 6 } else { 7 };
    let found: std::sync::Mutex<Vec<(Vec<Op>, Fail)>> = std::sync::Mutex::new(vec![]);
    // exhaustive
    for len in 0..=maxlen as u32 {
        let total = 16u64.pow(len);
        let chunk = 1u64 << 16;
        let nchunks = (total + chunk - 1) / chunk;
        let st = (0..nchunks)
            .into_par_iter()
            .fold(Stats::default, |mut st, c| {
                if !found.lock().unwrap().is_empty() {
                    return st;
                }
                let mut ops = vec![Op::Push; len as usize];
                for k in c * chunk..((c + 1) * chunk).min(total) {
                    let mut x = k;
                    for o in ops.iter_mut() {
                        *o = OPS[(x % 16) as usize];
                        x /= 16;
                    }
                    if len <= 5 {
                        if let Run::Fail(_, f) = execute_layout(&ops, true, 1) {
                            found.lock().unwrap().push((ops.clone(), Fail { kind: format!("{}#wide", f.kind), ..f }));
                            return st;
                        }
                    }
                    match execute(&ops, true) {
                        Run::Invalid(_) => *st.skipped.entry("history:precondition-violated".into()).or_insert(0) += 1,
                        Run::Ok { nontrivial, cut_branches, .. } => {
                            st.evaluations += 1;
                            st.class("history:valid");
                            if cut_branches >= 2 {
                                st.class("history:commit-cuts>=2");
                            }
                            if nontrivial {
                                st.nontrivial_add(hash64(&(len, k)), 1);
                                if st.samples.is_empty() && k % 1001 == 3 {
                                    st.sample(json!({"ops": ops.iter().map(op_json).collect::<Vec<_>>()}));
                                }
                            }
                        }
                        Run::Fail(_, f) => {
                            found.lock().unwrap().push((ops.clone(), f));
                            return st;
                        }
                    }
                }
                st
            })
            .reduce(Stats::default, |mut a, b| {
                a.merge(b);
                a
            });
        o.stats.merge(st);
    }
    o.exhaustive = Some(format!("all operation sequences of length <= {} over 16 operations (3 slots x 3 values), pruned by the preconditions", maxlen));
    o.generators.push(json!({"mode": "exhaustive", "maxlen": maxlen, "operations": 16}));
    let mut f = found.into_inner().unwrap();
    f.sort_by_key(|x| x.0.len());
    if let Some((ops, fail)) = f.into_iter().next() {
        o.violations.push(violation(&ops, fail));
        return o;
    }
    // long random histories
    let cases: u32 = if ctx.quick() { 200_000 } else { 3_000_000 };
    let shards = 16u64;
    let results: Vec<(Stats, Option<(Vec<Op>, Fail)>)> = (0..shards)
        .into_par_iter()
        .map(|shard| {
            let config = Config { cases: cases / shards as u32, failure_persistence: None, max_shrink_iters: 8192, ..Config::default() };
            let rng = TestRng::from_seed(RngAlgorithm::ChaCha, &ctx.subseed("histories", shard));
            let mut runner = TestRunner::new_with_rng(config, rng);
            let st = std::cell::RefCell::new(Stats::default());
            let failed = std::cell::Cell::new(false);
            let strat = proptest::collection::vec(proptest::num::u8::ANY, 0..120);
            let res = runner.run(&strat, |bytes| {
                let lay = bytes.first().map_or(0, |b| b % 3);
                let ops = valid_prefix(&decode_ops_for(&bytes, lay));
                match execute_layout(&ops, true, lay) {
                    Run::Invalid(_) => Ok(()),
                    Run::Ok { nontrivial, cut_branches, .. } => {
                        if !failed.get() {
                            let mut g = st.borrow_mut();
                            g.evaluations += 1;
                            g.class("history:valid");
                            if cut_branches >= 2 {
                                g.class("history:commit-cuts>=2");
                            }
                            if cut_branches >= 20 {
                                g.class("history:commit-cuts>=20");
                            }
                            if lay == 2 {
                                g.class("history:24-slot-layout");
                            }
                            if nontrivial {
                                g.nontrivial_add(hash64(&bytes), 1);
                                if g.samples.is_empty() {
                                    g.sample(json!({"ops": ops.iter().map(op_json).collect::<Vec<_>>()}));
                                }
                            }
                        }
                        Ok(())
                    }
                    Run::Fail(_, f) => {
                        failed.set(true);
                        Err(TestCaseError::fail(f.kind))
                    }
                }
            });
            let found = match res {
                Err(TestError::Fail(_, bytes)) => {
                    let lay = bytes.first().map_or(0, |b| b % 3);
                    let ops = valid_prefix(&decode_ops_for(&bytes, lay));
                    match execute_layout(&ops, true, lay) {
                        Run::Fail(_, f) => Some((ops, Fail { kind: format!("{}{}", f.kind, suffix(lay)), ..f })),
                        _ => None,
                    }
                }
                _ => None,
            };
            (st.into_inner(), found)
        })
        .collect();
    for (s, f) in results {
        o.stats.merge(s);
        if let Some((ops, fail)) = f {
            if o.violations.is_empty() {
                o.violations.push(violation(&ops, fail));
            }
        }
    }
    o.generators.push(json!({"mode": "random(proptest bytes -> history with bursts)", "cases": cases, "seed": ctx.seed}));
    if !o.violations.is_empty() {
        return o;
    }
    // program-level companion: the same discipline observed through captures
    let p = DiffRef { caps: true, allow_cond: true, cond_focus: false, omit_empty_no: false, only_pos0: false, f1_undisputed: false, free_cond_refs: false, ref_style: 0 };
    let mut pats: Vec<_> = super::product_space(true, if ctx.quick() { 1 } else { 2 }).into_iter().filter(has_commit_construct).collect();
    // committing constructs under scoped flags (a possessive quantifier under the swap-greed flag is still committed)
    pats.extend(super::space(&crate::gen::flag_cfg(), 3, false).into_iter().filter(has_commit_construct));
    let mut texts = crate::gen::texts(&['a', 'b', 'c'], 4);
    texts.extend(crate::gen::texts(&['a', 'B', '\n'], 3));
    let before = o.stats.evaluations;
    stage(ctx, &mut o, &p, "program level: atomic / look-around / conditional patterns vs reference", &pats, &texts);
    o.extra.insert("program_level_evaluations".into(), json!(o.stats.evaluations - before));
    o
}

pub fn replay(ctx: &RunCtx, case: &Value) -> Result<Option<Fail>, String> {
    if case.get("ast").is_some() {
        let p = DiffRef { caps: true, allow_cond: true, cond_focus: false, omit_empty_no: false, only_pos0: false, f1_undisputed: false, free_cond_refs: false, ref_style: 0 };
        return replay_pat(ctx, &p, case);
    }
    let ops: Vec<Op> = case.get("ops").and_then(|x| x.as_array()).ok_or("no ops")?.iter().map(op_from).collect::<Option<Vec<_>>>().ok_or("bad op")?;
    let lay = case.get("layout").and_then(|w| w.as_u64()).map(|l| l as u8).unwrap_or(if case.get("wide").and_then(|w| w.as_bool()).unwrap_or(false) { 1 } else { 0 });
    Ok(match execute_layout(&ops, true, lay) {
        Run::Fail(_, f) => Some(f),
        Run::Invalid(i) => return Err(format!("history violates a precondition at step {}", i)),
        Run::Ok { .. } => None,
    })
}

/// fuzz entry: bytes -> operation history (same decoder as the proptest tier), byte 0 picks the slot layout
pub fn fuzz_one(data: &[u8]) -> Option<(Value, Fail)> {
    let lay = data.first().map_or(0, |b| b % 3);
    let ops = valid_prefix(&decode_ops_for(data, lay));
    match execute_layout(&ops, true, lay) {
        Run::Fail(_, f) => {
            let v = violation(&ops, Fail { kind: format!("{}{}", f.kind, suffix(lay)), ..f });
            Some((v.case, v.fail))
        }
        _ => None,
    }
}
