//! C12: template expansion follows the documented `$`-syntax (and the python `\` syntax); escape
//! round-trips; check accepts only templates whose references exist.
use crate::core::*;
use crate::engine;
use crate::gen::Dec;
use crate::model::{self, Ref, SpanGroups};
use fancy_regex::{Expander, Regex};
use proptest::test_runner::{Config, RngAlgorithm, TestCaseError, TestError, TestRng, TestRunner};
use rayon::prelude::*;
use serde_json::{json, Value};
use std::panic::{catch_unwind, AssertUnwindSafe};

pub const ALPHA: [char; 16] = ['$', '{', '}', '\\', 'g', '<', '>', '0', '1', '9', 'x', '_', 'é', ' ', '-', '²'];

struct Subject {
    pattern: &'static str,
    text: &'static str,
    names: Vec<Option<String>>,
}

fn subjects() -> Vec<Subject> {
    let n = |v: &[Option<&str>]| v.iter().map(|o| o.map(|s| s.to_string())).collect::<Vec<_>>();
    vec![
        Subject { pattern: "(a)(b)?(c)", text: "-ac-", names: n(&[None, None, None, None]) },
        Subject { pattern: "(?<x>a)(?<x1>b)?(?<_>c)(?<é>d)", text: "acd", names: n(&[None, Some("x"), Some("x1"), Some("_"), Some("é")]) },
        Subject { pattern: "(a)(b)(c)(d)(e)(f)(g)(h)(i)(j)(k)(?<g9>l)", text: "abcdefghijkl", names: n(&[None, None, None, None, None, None, None, None, None, None, None, None, Some("g9")]) },
        // the same through the VM
        Subject { pattern: "(a)(b)?(c)(?=)", text: "-ac-", names: n(&[None, None, None, None]) },
        Subject { pattern: "(?<x>a)(?<x1>b)?(?<_>c)(?<é>d)(?=)", text: "acd", names: n(&[None, Some("x"), Some("x1"), Some("_"), Some("é")]) },
        Subject { pattern: "(?=)(a)(b)(c)(d)(e)(f)(g)(h)(i)(j)(k)(?<g9>l)", text: "abcdefghijkl", names: n(&[None, None, None, None, None, None, None, None, None, None, None, None, Some("g9")]) },
        // a name ending in a non-ASCII digit (identifier characters are alphanumeric or `_`)
        Subject { pattern: "(?<x²>a)(?<x>b)?(?P<n٣>c)", text: "ac", names: n(&[None, Some("x²"), Some("x"), Some("n٣")]) },
        Subject { pattern: "(?=)(?<x²>a)(?<x>b)?(?P<n٣>c)", text: "ac", names: n(&[None, Some("x²"), Some("x"), Some("n٣")]) },
    ]
}

struct Prepared {
    re: Regex,
    spans: Vec<Option<(usize, usize)>>,
    sub: Subject,
}

fn prepare() -> Result<Vec<Prepared>, String> {
    let mut out = vec![];
    for sub in subjects() {
        let re = match Regex::new(sub.pattern) {
            Ok(r) => r,
            // group-name syntax is not this property's subject: a capture set whose names (non-ASCII digits) are
            // rejected is left out (the fragments `$x²`, `${x²}` still run against the other capture sets)
            Err(_) if sub.pattern.contains('²') => continue,
            Err(e) => return Err(format!("subject {} does not compile: {}", sub.pattern, e)),
        };
        let caps = re.captures(sub.text).map_err(|e| e.to_string())?.ok_or("subject does not match")?;
        let spans = engine::caps_vec(&caps);
        if spans.len() != sub.names.len() {
            return Err(format!("subject {}: group count {} != {}", sub.pattern, spans.len(), sub.names.len()));
        }
        out.push(Prepared { re, spans, sub });
    }
    Ok(out)
}

/// io::Write that accepts at most `chunk` bytes per call
struct ChunkWriter {
    out: Vec<u8>,
    chunk: usize,
}
impl std::io::Write for ChunkWriter {
    fn write(&mut self, buf: &[u8]) -> std::io::Result<usize> {
        let n = buf.len().min(self.chunk);
        self.out.extend_from_slice(&buf[..n]);
        Ok(n)
    }
    fn flush(&mut self) -> std::io::Result<()> {
        Ok(())
    }
}

pub struct Info {
    nontrivial: bool,
    class: &'static str,
}

fn check_template(p: &Prepared, template: &str, python: bool) -> Result<Info, Fail> {
    let groups = SpanGroups { text: p.sub.text, spans: &p.spans, names: &p.sub.names };
    let want = model::expand(template, !python, &groups);
    let refs = model::references(template, !python);
    let exp = if python { Expander::python() } else { Expander::default() };
    let r = catch_unwind(AssertUnwindSafe(|| -> Result<(), Fail> {
        let caps = p.re.captures(p.sub.text).unwrap().unwrap();
        let a = exp.expansion(template, &caps);
        if a != want {
            return Err(Fail::new("expansion", format!("{:?}", want), format!("{:?}", a)));
        }
        let mut dst = String::from("pre:é");
        exp.append_expansion(&mut dst, template, &caps);
        if dst != format!("pre:é{}", want) {
            return Err(Fail::new("append_expansion", format!("{:?}", format!("pre:é{}", want)), format!("{:?}", dst)));
        }
        let mut buf: Vec<u8> = b"w:".to_vec();
        exp.write_expansion(&mut buf, template, &caps).map_err(|e| Fail::new("write_expansion", "Ok", e.to_string()))?;
        if buf != format!("w:{}", want).into_bytes() {
            return Err(Fail::new("write_expansion", format!("{:?}", want), format!("{:?}", String::from_utf8_lossy(&buf))));
        }
        // a writer that takes only a few bytes per call (a legitimate io::Write): nothing may be lost
        for chunk in [1usize, 3] {
            let mut cw = ChunkWriter { out: vec![], chunk };
            exp.write_expansion(&mut cw, template, &caps).map_err(|e| Fail::new("write_expansion", "Ok with a short-writing writer", e.to_string()))?;
            if cw.out != want.as_bytes() {
                return Err(Fail::new("write_expansion", format!("{:?} through a writer accepting {} byte(s) per call", want, chunk), format!("{:?}", String::from_utf8_lossy(&cw.out))));
            }
        }
        // a fixed-size slice that is one byte too small: the error must surface, nothing may be dropped silently
        if !want.is_empty() {
            let mut small = vec![0u8; want.len() - 1];
            let mut slice: &mut [u8] = &mut small;
            if exp.write_expansion(&mut slice, template, &caps).is_ok() {
                return Err(Fail::new("write_expansion", "Err(WriteZero) for a destination slice that is one byte too small", "Ok"));
            }
        }
        let mut v: Vec<u8> = b"v:".to_vec();
        exp.write_expansion_vec(&mut v, template, &caps).map_err(|e| Fail::new("write_expansion_vec", "Ok", e.to_string()))?;
        if v != format!("v:{}", want).into_bytes() {
            return Err(Fail::new("write_expansion_vec", format!("{:?}", want), format!("{:?}", String::from_utf8_lossy(&v))));
        }
        if !python {
            let mut d2 = String::from("é");
            caps.expand(template, &mut d2);
            if d2 != format!("é{}", want) {
                return Err(Fail::new("Captures::expand", format!("{:?}", format!("é{}", want)), format!("{:?}", d2)));
            }
        }
        // escape round trip: the template taken as plain text
        let esc = exp.escape(template);
        let back = exp.expansion(&esc, &caps);
        if back != template {
            return Err(Fail::new("escape-roundtrip", format!("{:?}", template), format!("escape = {:?}, expansion = {:?}", esc, back)));
        }
        let borrowed = matches!(esc, std::borrow::Cow::Borrowed(_));
        let sub = if python { '\\' } else { '$' };
        if borrowed == template.contains(sub) {
            return Err(Fail::new("escape-borrow", format!("borrowed iff no {:?}", sub), format!("borrowed={}", borrowed)));
        }
        // check(): one-directional
        if exp.check(template, &p.re).is_ok() {
            for r in &refs {
                let ok = match r {
                    Ref::Malformed => false,
                    Ref::Num(n) => *n < p.spans.len(),
                    Ref::Name(name) => p.sub.names.iter().any(|x| x.as_deref() == Some(name.as_str())) || name.parse::<usize>().map_or(false, |n| n < p.spans.len()),
                };
                if !ok {
                    return Err(Fail::new("check-accepts-bad-reference", format!("Err for reference {:?}", r), "Ok"));
                }
            }
        }
        Ok(())
    }));
    match r {
        Err(e) => return Err(Fail::new("panic", format!("{:?}", want), format!("PANIC({})", engine::panic_msg(e)))),
        Ok(Err(f)) => return Err(f),
        Ok(Ok(())) => {}
    }
    let resolved = refs.iter().any(|r| match r {
        Ref::Num(n) => groups_get(&p.spans, *n),
        Ref::Name(name) => p.sub.names.iter().position(|x| x.as_deref() == Some(name.as_str())).map_or_else(|| name.parse::<usize>().map_or(false, |n| groups_get(&p.spans, n)), |i| groups_get(&p.spans, i)),
        Ref::Malformed => false,
    });
    let malformed = refs.iter().any(|r| *r == Ref::Malformed);
    Ok(Info { nontrivial: resolved || malformed, class: if malformed { "template:malformed-reference" } else if resolved { "template:resolved-reference" } else if refs.is_empty() { "template:no-reference" } else { "template:unresolved-reference" } })
}

fn groups_get(spans: &[Option<(usize, usize)>], i: usize) -> bool {
    spans.get(i).copied().flatten().is_some()
}

fn all_templates(maxlen: usize) -> Vec<String> {
    crate::gen::texts(&ALPHA, maxlen)
}

const PIECES: &[&str] = &[
    "$", "\\", "{", "}", "g<", ">", "0", "1", "2", "9", "10", "11", "12", "13", "99999999999999999999", "18446744073709551616", "x", "x1", "_", "é", " ", "$$", "\\\\", "${", "\\g<", "g9", "${x}", "$x1", "\\g<x>",
    "\\1", "$1", "a", "-", "${-1}", "\\g<-1>", "-1", "$-", "${1-}", "²", "x²", "${x²}", "$n٣", "\\g<n٣>", "٣", "9223372036854775808", "9223372036854775807", "4611686018427387904", "${9223372036854775808}", "😀", "x😀", "$😀", "\\😀", "${x}😀$1", "\u{10000}", "\u{800}", "\u{7ff}",
];

fn random_template(bytes: &[u8]) -> String {
    let mut d = Dec::new(bytes);
    let k = 1 + d.below(9);
    (0..k).map(|_| PIECES[d.below(PIECES.len())]).collect()
}

fn shrink(p: &[Prepared], si: usize, python: bool, t: &str, kind: &str) -> String {
    let mut cur: Vec<char> = t.chars().collect();
    loop {
        let mut improved = false;
        for i in 0..cur.len() {
            let mut c = cur.clone();
            c.remove(i);
            let s: String = c.iter().collect();
            if matches!(check_template(&p[si], &s, python), Err(f) if f.kind == kind) {
                cur = c;
                improved = true;
                break;
            }
        }
        if !improved {
            return cur.into_iter().collect();
        }
    }
}

fn violation(p: &[Prepared], si: usize, python: bool, t: &str, f: Fail) -> Violation {
    let small = shrink(p, si, python, t, &f.kind);
    let f2 = check_template(&p[si], &small, python).err().unwrap_or(f);
    Violation { case: json!({"template": small, "python": python, "subject": si, "pattern": p[si].sub.pattern, "text": p[si].sub.text}), fail: f2 }
}

pub fn run(ctx: &RunCtx) -> Outcome {
    let mut o = Outcome::default();
    o.rule = "templates: every string of length <= L over {$,{,},\\,g,<,>,0,1,9,x,_,é,space,-,²} (exhaustive) plus proptest sequences of template fragments (incl. $$, ${, \\g<, 20-digit numbers); each x 8 capture sets (numbered only / named with an unmatched group and a non-ASCII name / 12 groups so that $10, \\10 matter; each through the automata engine and through the VM) x both expanders. Oracle: independent scanner written from the doc comments; expansion, append_expansion, write_expansion (into a Vec, through writers that accept 1 or 3 bytes per call, and into a slice one byte too small, which must give an Err), write_expansion_vec and Captures::expand agree with it; expansion(escape(t)) == t and escape borrows iff nothing to escape; check(t).is_ok() implies every reference the scanner finds names an existing group and none is malformed. Non-trivial = the template contains a reference resolving to a matched group, or a malformed reference. Distinct = distinct (template, expander, capture set).".into();
    o.assumptions = vec!["the template model in harness/src/model.rs follows the documentation of Captures::expand / Regex::replace / Expander::python".into()];
    o.required_classes = vec!["template:resolved-reference".into(), "template:malformed-reference".into(), "template:unresolved-reference".into()];
    let prepared = match prepare() {
        Ok(p) => p,
        Err(e) => {
            o.infra_error = Some(e);
            return o;
        }
    };
    let maxlen = if ctx.quick() { 5 } else { 6 };
    let templates = all_templates(maxlen);
    let found: std::sync::Mutex<Vec<(usize, bool, String, Fail)>> = std::sync::Mutex::new(vec![]);
    let stats = templates
        .par_iter()
        .fold(Stats::default, |mut st, t| {
            if !found.lock().unwrap().is_empty() {
                return st;
            }
            for (si, p) in prepared.iter().enumerate() {
                for python in [false, true] {
                    st.evaluations += 1;
                    match check_template(p, t, python) {
                        Ok(info) => {
                            st.class(info.class);
                            if info.nontrivial {
                                st.nontrivial_add(hash64(&(t, si, python)), 1);
                                if st.samples.len() < 2 && st.evaluations % 40_003 == 7 {
                                    st.sample(json!({"template": t, "python": python, "pattern": p.sub.pattern}));
                                }
                            }
                        }
                        Err(f) => {
                            found.lock().unwrap().push((si, python, t.clone(), f));
                            return st;
                        }
                    }
                }
            }
            st
        })
        .reduce(Stats::default, |mut a, b| {
            a.merge(b);
            a
        });
    o.stats.merge(stats);
    o.stats.patterns = templates.len() as u64;
    o.exhaustive = Some(format!("all templates of length <= {} over the 15-character alphabet x 6 capture sets x 2 expanders", maxlen));
    o.generators.push(json!({"mode": "exhaustive", "templates": templates.len(), "maxlen": maxlen}));
    let mut f = found.into_inner().unwrap();
    f.sort_by_key(|x| x.2.len());
    if let Some((si, python, t, fail)) = f.into_iter().next() {
        o.violations.push(violation(&prepared, si, python, &t, fail));
        return o;
    }
    // random fragment sequences
    let cases: u32 = if ctx.quick() { 40_000 } else { 600_000 };
    let shards = 16u64;
    let results: Vec<(Stats, Option<(usize, bool, String, Fail)>)> = (0..shards)
        .into_par_iter()
        .map(|shard| {
            let config = Config { cases: cases / shards as u32, failure_persistence: None, ..Config::default() };
            let rng = TestRng::from_seed(RngAlgorithm::ChaCha, &ctx.subseed("templates", shard));
            let mut runner = TestRunner::new_with_rng(config, rng);
            let st = std::cell::RefCell::new(Stats::default());
            let failed = std::cell::Cell::new(false);
            let strat = proptest::collection::vec(proptest::num::u8::ANY, 0..24);
            let eval = |bytes: &[u8]| -> Option<(usize, bool, String, Fail)> {
                let t = random_template(bytes);
                for (si, p) in prepared.iter().enumerate() {
                    for python in [false, true] {
                        match check_template(p, &t, python) {
                            Ok(info) => {
                                if !failed.get() {
                                    let mut s = st.borrow_mut();
                                    s.evaluations += 1;
                                    s.class(info.class);
                                    if info.nontrivial {
                                        s.nontrivial_add(hash64(&(&t, si, python)), 1);
                                    }
                                }
                            }
                            Err(f) => return Some((si, python, t, f)),
                        }
                    }
                }
                None
            };
            let res = runner.run(&strat, |bytes| match eval(&bytes) {
                None => Ok(()),
                Some(f) => {
                    failed.set(true);
                    Err(TestCaseError::fail(f.3.kind))
                }
            });
            let found = match res {
                Err(TestError::Fail(_, bytes)) => eval(&bytes),
                _ => None,
            };
            (st.into_inner(), found)
        })
        .collect();
    for (s, f) in results {
        o.stats.merge(s);
        if let Some((si, python, t, fail)) = f {
            if o.violations.is_empty() {
                o.violations.push(violation(&prepared, si, python, &t, fail));
            }
        }
    }
    o.generators.push(json!({"mode": "random(proptest bytes -> template fragments)", "cases": cases, "seed": ctx.seed}));
    o
}

pub fn replay(_ctx: &RunCtx, case: &Value) -> Result<Option<Fail>, String> {
    let p = prepare()?;
    let t = case.get("template").and_then(|x| x.as_str()).ok_or("no template")?;
    let python = case.get("python").and_then(|x| x.as_bool()).unwrap_or(false);
    let si = case.get("subject").and_then(|x| x.as_u64()).unwrap_or(0) as usize;
    Ok(check_template(p.get(si).ok_or("bad subject index")?, t, python).err())
}

/// fuzz entry: byte 0 picks the capture set and the expander; the rest is the template (taken as UTF-8 when it is
/// valid UTF-8, otherwise decoded as a sequence of template fragments)
pub fn fuzz_one(data: &[u8]) -> Option<(Value, Fail)> {
    static PREP: std::sync::OnceLock<Vec<Prepared>> = std::sync::OnceLock::new();
    let p = PREP.get_or_init(|| prepare().expect("subjects compile"));
    let (&b0, rest) = data.split_first()?;
    let si = (b0 as usize >> 1) % p.len();
    let python = b0 & 1 == 1;
    let t = match std::str::from_utf8(rest) {
        Ok(s) => s.to_string(),
        Err(_) => random_template(rest),
    };
    match check_template(&p[si], &t, python) {
        Ok(_) => None,
        Err(f) => {
            let v = violation(p, si, python, &t, f);
            Some((v.case, v.fail))
        }
    }
}
