//! C03: inserting the no-op `(?=)` anywhere changes neither span nor captures (metamorphic).
use super::api::flatten;
use super::c01::stage;
use super::diffref::known_class;
use super::{product_space, space};
use crate::ast::{Node, Node::*};
use crate::core::*;
use crate::engine::{self, Built};
use crate::gen::{self, Dec, RandCfg};
use fancy_regex::Regex;
use serde_json::json;

fn inj() -> Node {
    Look(Box::new(Empty), false, false)
}

fn is_inj(n: &Node) -> bool {
    matches!(n, Look(c, false, false) if **c == Empty)
}

/// remove every `(?=)` from the tree
pub fn strip(n: &Node) -> Node {
    if is_inj(n) {
        return Empty;
    }
    let mut m = n.clone();
    match &mut m {
        Concat(v) => {
            let w: Vec<Node> = v.iter().map(strip).filter(|c| *c != Empty).collect();
            return match w.len() {
                0 => Empty,
                1 => w.into_iter().next().unwrap(),
                _ => Concat(w),
            };
        }
        _ => {
            for c in m.children_mut() {
                let s = strip(c);
                *c = s;
            }
        }
    }
    m
}

fn count_nodes(n: &Node) -> usize {
    1 + n.children().iter().map(|c| count_nodes(c)).sum::<usize>()
}

/// wrap the node with preorder index `target` as `(?=)X` (before) or `X(?=)` (after)
fn inject_at(n: &Node, target: usize, before: bool, counter: &mut usize) -> Node {
    let me = *counter;
    *counter += 1;
    let mut m = n.clone();
    if me != target {
        for c in m.children_mut() {
            let r = inject_at(c, target, before, counter);
            *c = r;
        }
        return flatten_one(m);
    }
    *counter += count_nodes(n) - 1;
    if before {
        Concat(vec![inj(), m])
    } else {
        Concat(vec![m, inj()])
    }
}

/// flatten a Concat whose members are Concats (one level), as the crate's parser builds flat lists
fn flatten_one(n: Node) -> Node {
    match n {
        Concat(v) => {
            let mut out = vec![];
            for c in v {
                match c {
                    Concat(inner) => out.extend(inner),
                    x => out.push(x),
                }
            }
            Concat(out)
        }
        x => x,
    }
}

/// all single-site injections of `(?=)` into `base`
pub fn single_sites(base: &Node) -> Vec<Node> {
    let n = count_nodes(base);
    let mut out = vec![];
    for t in 0..n {
        for before in [true, false] {
            let mut c = 0;
            out.push(inject_at(base, t, before, &mut c));
        }
    }
    out
}

pub struct Inject;

pub struct JP {
    base: Regex,
    injected: Regex,
    changed: bool,
}

impl PatProp for Inject {
    type P = JP;
    fn prepare(&self, ctx: &RunCtx, n: &Node, pat: &str, st: &mut Stats) -> Prep<JP> {
        let base = strip(n);
        if base == *n {
            return Prep::Skip("domain:no-injection-site");
        }
        if let Some(k) = known_class(ctx, &base) {
            return Prep::Excluded(k);
        }
        if !base.refs_valid(false) {
            return Prep::Skip("domain:reference-to-unclosed-group");
        }
        let bpat = base.to_pattern();
        let bre = match engine::build(&bpat) {
            Built::Ok(r) => r,
            Built::Err(_) => return Prep::Skip("compile:base-error"),
            Built::Panic(p) => return Prep::Fail(Fail::new("compile-panic", "Ok or Err", p)),
        };
        let ire = match engine::build(pat) {
            Built::Ok(r) => r,
            // e.g. the injection makes a look-behind body non-constant for the analysis
            Built::Err(_) => return Prep::Skip("compile:injected-pattern-error"),
            Built::Panic(p) => return Prep::Fail(Fail::new("compile-panic", "Ok or Err", p)),
        };
        let sb = (engine::is_vm(&bre), engine::program_shape(&bpat).map(|(d, _)| d));
        let si = (engine::is_vm(&ire), engine::program_shape(pat).map(|(d, _)| d));
        let changed = sb != si;
        st.class(if !sb.0 { "base:Wrap -> injected:VM" } else if changed { "base:VM, delegate pieces changed" } else { "base:VM, same delegate pieces" });
        Prep::Ready(JP { base: bre, injected: ire, changed })
    }

    fn eval(&self, _ctx: &RunCtx, p: &JP, _n: &Node, t: &str, pos: usize) -> Verdict {
        let a = engine::captures_from_pos(&p.base, t, pos);
        let b = engine::captures_from_pos(&p.injected, t, pos);
        if a != b {
            return Verdict::Fail(Fail::new(
                if matches!(b, engine::Out::Panic(_)) || matches!(a, engine::Out::Panic(_)) { "panic" } else { "differs" },
                format!("base: {}", a.show()),
                format!("with (?=): {}", b.show()),
            ));
        }
        let matched = matches!(a, engine::Out::Val(Some(_)));
        Verdict::Pass { nontrivial: p.changed && matched, class: if matched { Some("outcome:match") } else { None } }
    }
}

/// bytes -> random base pattern with 1..3 injection sites (shared by the proptest tier and the fuzz target)
pub fn decode_injected(cfg: &RandCfg, bytes: &[u8]) -> Option<Node> {
    let split = bytes.len() / 4;
    let (sites, pat) = bytes.split_at(split);
    let base = strip(&gen::decode_pattern(cfg, pat));
    let mut d = Dec::new(sites);
    let mut cur = base;
    let k = 1 + d.below(3);
    for _ in 0..k {
        let n = count_nodes(&cur);
        let t = d.below(n.min(255));
        let before = d.below(2) == 0;
        let mut c = 0;
        cur = inject_at(&cur, t, before, &mut c);
    }
    Some(cur)
}

pub fn run(ctx: &RunCtx) -> Outcome {
    let p = Inject;
    let mut o = Outcome::default();
    o.rule = "base patterns: C01 space (exhaustive trees, context x filler products) plus conditionals outside the known classes; every single injection site of the no-op (?=) (before / after every node at any depth, exhaustive) and random multi-site injections into random ASTs; captures_from_pos(P) must equal captures_from_pos(P') on every text and offset. Non-trivial = the injection changed the engine path or the multiset of delegated pieces (read from the compiled program) and the text matches. Distinct = distinct (injected pattern, text, offset).".into();
    o.assumptions = vec!["metamorphic: no external oracle; injections that make P' fail to compile are skipped and counted".into()];
    o.required_classes = vec!["base:Wrap -> injected:VM".into(), "base:VM, delegate pieces changed".into(), "outcome:match".into()];
    let quick = ctx.quick();
    let expand = |bases: &[Node]| -> Vec<Node> { gen::dedup_by_print(bases.iter().flat_map(single_sites).collect()) };
    // small bases on the full text set
    let b3 = space(&gen::core_cfg(), 3, false);
    let sigma3 = gen::text_set(&gen::SIGMA, 3, 0);
    if !stage(ctx, &mut o, &p, "core N<=3 x all single sites", &expand(&b3), &sigma3) {
        return o;
    }
    let mut common = gen::common_cfg();
    common.leaves.truncate(15);
    let c3 = space(&common, if quick { 3 } else { 4 }, false);
    let mut plain_texts = gen::text_set(&gen::SIGMA5, 3, 0);
    plain_texts.extend(gen::cr_texts());
    if !stage(ctx, &mut o, &p, "plain (delegable) patterns x all single sites", &expand(&c3), &plain_texts) {
        return o;
    }
    {
        let mb = space(&gen::meta_cfg(), 3, false);
        if !stage(ctx, &mut o, &p, "meta-character literals x all single sites", &expand(&mb), &gen::texts(&gen::META_SIGMA, 3)) {
            return o;
        }
    }
    {
        let fb = space(&gen::flag_cfg(), 3, false);
        if !stage(ctx, &mut o, &p, "flag groups x fancy constructs x all single sites", &expand(&fb), &gen::texts(&gen::FLAG_SIGMA, 3)) {
            return o;
        }
    }
    {
        // texts with characters on the UTF-8 length-class boundaries (the VM steps over characters itself)
        let mut small = space(&gen::core_cfg(), 2, false);
        small.extend(c3.iter().filter(|x| x.size() <= 2).cloned());
        let small = gen::dedup_by_print(small);
        if !stage(ctx, &mut o, &p, "small bases x all single sites x UTF-8 edge texts", &expand(&small), &gen::edge_texts()) {
            return o;
        }
    }
    let n = if quick { 4 } else { 5 };
    let b4: Vec<Node> = space(&gen::core_cfg(), n, false).into_iter().filter(|x| x.size() > 3).collect();
    let t4 = {
        let mut t = gen::texts(&gen::SIGMA, 2);
        t.extend(gen::texts(&['a', 'b'], 4).into_iter().filter(|s| s.len() > 2));
        t
    };
    if !stage(ctx, &mut o, &p, &format!("core N<={} x all single sites", n), &expand(&b4), &t4) {
        return o;
    }
    o.exhaustive = Some(format!("every single (?=) injection site of every valid tree with <= {} nodes over the core leaf set", n));
    let cb: Vec<Node> = space(&gen::cond_cfg(), if quick { 4 } else { 5 }, false).into_iter().filter(|x| x.has_cond()).collect();
    if !stage(ctx, &mut o, &p, "conditional bases x all single sites", &expand(&cb), &gen::texts(&['a', 'b', 'c'], 3)) {
        return o;
    }
    let prods = product_space(false, if quick { 1 } else { 2 });
    if !stage(ctx, &mut o, &p, "context x filler x all single sites", &expand(&prods), &gen::texts(&['a', 'b', 'c'], if quick { 4 } else { 3 })) {
        return o;
    }
    // random multi-site injections
    if o.violations.is_empty() {
        let cfg = RandCfg::core();
        let cases = if quick { 150_000 } else { 2_000_000 };
        let rtexts = {
            let mut t = gen::texts(&['a', 'b', 'c'], 3);
            t.extend(["aaab", "abab", "abcabc", "aéaé", "a\nb"].iter().map(|s| s.to_string()));
            t
        };
        let t0 = std::time::Instant::now();
        let (st, found) = explore_random_with(ctx, &p, "random multi-site", &rtexts, cases, &|bytes| decode_injected(&cfg, bytes));
        o.generators.push(json!({"mode": "random(proptest bytes -> AST + 1..3 injection sites)", "cases": cases, "texts": rtexts.len(), "evaluations": st.evaluations, "seed": ctx.seed, "wall_s": t0.elapsed().as_secs_f64()}));
        let v = found.map(|f| finish(ctx, &p, f));
        o.absorb(st, v);
    }
    let _ = flatten;
    o
}
