pub mod diffref;
pub mod api;
pub mod c01;
pub mod c03;
pub mod c04;
pub mod c06;
pub mod c07;
pub mod c12;
pub mod c13;
pub mod c14;
pub mod c17;
pub mod c18;
pub mod c19;
pub mod c20;

use crate::ast::Node;
use crate::core::*;
use crate::gen;
use serde_json::Value;

pub const ALL: [&str; 20] = [
    "C01", "C02", "C03", "C04", "C05", "C06", "C07", "C08", "C09", "C10", "C11", "C12", "C13", "C14", "C15", "C16", "C17", "C18", "C19", "C20",
];

pub fn run(ctx: &RunCtx) -> Outcome {
    let mut o = run_generated(ctx);
    // thorough tiers end with a coverage-guided campaign of the generic libFuzzer target (the property's own
    // decoder and oracle inside the target); C01 C02 C05 C06 have dedicated targets of their own
    if !ctx.quick() && o.violations.is_empty() && o.infra_error.is_none() && std::env::var("FRV_NO_FUZZ").is_err() && std::env::var("FRV_C18_TSAN_INNER").is_err() {
        let runs = 40_000;
        match ctx.prop {
            "C02" => api::fuzz_prop_stage(ctx, &mut o, Some(&c01::prop(true)), "C02-flags", runs),
            "C03" => api::fuzz_prop_stage(ctx, &mut o, Some(&c03::Inject), "C03", runs),
            "C04" => api::fuzz_prop_stage(ctx, &mut o, Some(&c04::VsRegex { named: None }), "C04", runs),
            "C07" => api::fuzz_prop_stage(ctx, &mut o, Some(&c07::Limits { only_pos0: false }), "C07", runs / 3),
            "C08" => api::fuzz_prop_stage(ctx, &mut o, Some(&api::IterModel), "C08", runs),
            "C09" => api::fuzz_prop_stage(ctx, &mut o, Some(&api::Coherence), "C09", runs),
            "C10" => api::fuzz_prop_stage(ctx, &mut o, Some(&api::SplitModel), "C10", runs),
            "C11" => api::fuzz_prop_stage(ctx, &mut o, Some(&api::ReplaceModel), "C11", runs / 2),
            "C14" => api::fuzz_prop_stage(ctx, &mut o, Some(&c14::Options), "C14", runs / 4),
            "C15" => api::fuzz_prop_stage(ctx, &mut o, Some(&c01::prop_cond()), "C15", runs),
            "C12" | "C17" | "C20" => api::fuzz_prop_stage::<api::Safety>(ctx, &mut o, None, ctx.prop, if ctx.prop == "C17" { runs / 4 } else { runs * 4 }),
            _ => {}
        }
    }
    o
}

fn run_generated(ctx: &RunCtx) -> Outcome {
    match ctx.prop {
        "C01" => c01::run(ctx, false),
        "C02" => c01::run(ctx, true),
        "C15" => c01::run_cond(ctx),
        "C03" => c03::run(ctx),
        "C04" => c04::run(ctx),
        "C05" => api::run_c05(ctx),
        "C06" => c06::run(ctx),
        "C07" => c07::run(ctx),
        "C12" => c12::run(ctx),
        "C13" => c13::run(ctx),
        "C14" => c14::run(ctx),
        "C17" => c17::run(ctx),
        "C18" => c18::run(ctx),
        "C19" => c19::run(ctx),
        "C20" => c20::run(ctx),
        "C08" => api::run_c08(ctx),
        "C09" => api::run_c09(ctx),
        "C10" => api::run_c10(ctx),
        "C11" => api::run_c11(ctx),
        "C16" => api::run_c16(ctx),
        _ => Outcome { infra_error: Some(format!("no check for {}", ctx.prop)), ..Outcome::default() },
    }
}

pub fn replay(ctx: &RunCtx, case: &Value) -> Result<Option<Fail>, String> {
    match ctx.prop {
        "C01" | "C02" => {
            let f1 = case.get("extra").and_then(|e| e.get("f1_undisputed")).and_then(|b| b.as_bool()).unwrap_or(false);
            let rs = case.get("extra").and_then(|e| e.get("ref_style")).and_then(|b| b.as_u64()).unwrap_or(0) as u8;
            replay_pat(ctx, &diffref::DiffRef { f1_undisputed: f1, ref_style: rs, ..c01::prop(ctx.prop == "C02") }, case)
        }
        "C15" => {
            let flag = |k: &str| case.get("extra").and_then(|e| e.get(k)).and_then(|b| b.as_bool()).unwrap_or(false);
            replay_pat(ctx, &diffref::DiffRef { omit_empty_no: flag("omit_empty_no"), free_cond_refs: flag("free_cond_refs"), ..c01::prop_cond() }, case)
        }
        "C03" => replay_pat(ctx, &c03::Inject, case),
        "C04" => {
            let named = case.get("extra").and_then(|e| e.get("named")).and_then(|b| b.as_u64()).map(|x| x as u8);
            replay_pat(ctx, &c04::VsRegex { named }, case)
        }
        "C05" => replay_pat(ctx, &api::Safety, case),
        "C06" => c06::replay(ctx, case),
        "C07" => replay_pat(ctx, &c07::Limits { only_pos0: false }, case),
        "C12" => c12::replay(ctx, case),
        "C13" => c13::replay(ctx, case),
        "C14" => replay_pat(ctx, &c14::Options, case),
        "C17" => c17::replay(ctx, case),
        "C18" => c18::replay(ctx, case),
        "C19" => c19::replay(ctx, case),
        "C20" => c20::replay(ctx, case),
        "C08" => replay_pat(ctx, &api::IterModel, case),
        "C09" => replay_pat(ctx, &api::Coherence, case),
        "C10" => replay_pat(ctx, &api::SplitModel, case),
        "C11" => replay_pat(ctx, &api::ReplaceModel, case),
        "C16" => {
            let force_vm = case.get("extra").and_then(|e| e.get("force_vm")).and_then(|b| b.as_bool()).unwrap_or(false);
            replay_pat(ctx, &api::Meta { force_vm }, case)
        }
        _ => Err(format!("no replay for {}", ctx.prop)),
    }
}

pub fn worker(ctx: &RunCtx, args: &[String]) {
    match ctx.prop {
        "C06" => c06::worker(ctx, args),
        _ => panic!("no worker for {}", ctx.prop),
    }
}

/// enumerated, reference-valid, print-deduplicated pattern list
pub fn space(cfg: &gen::Cfg, max_nodes: usize, allow_open_refs: bool) -> Vec<Node> {
    let v: Vec<Node> = gen::trees_upto(cfg, max_nodes).into_iter().filter(|n| n.refs_valid(allow_open_refs)).collect();
    gen::dedup_by_print(v)
}

pub fn product_space(cond: bool, depth: usize) -> Vec<Node> {
    let base = gen::contexts();
    let fillers = gen::fillers();
    let mut v = gen::products(&base, &base, &fillers, depth);
    if cond {
        let cc = gen::cond_contexts();
        v.extend(gen::products(&cc, &base, &fillers, depth));
        v.extend(gen::products(&base, &cc, &fillers, depth.max(2)));
    }
    gen::dedup_by_print(v)
}
