//! C17: escape(text) is a pattern that matches exactly text.
use crate::core::*;
use crate::engine::{self, Built};
use crate::gen::Dec;
use fancy_regex::escape;
use proptest::test_runner::{Config, RngAlgorithm, TestCaseError, TestError, TestRng, TestRunner};
use rayon::prelude::*;
use serde_json::{json, Value};
use std::borrow::Cow;

pub const ALPHA: &[char] = &[
    '\\', '.', '+', '*', '?', '(', ')', '|', '[', ']', '{', '}', '^', '$', '#', '-', '&', '~', ' ', '\n', '\t', ',', ':', '<', '>', '=', '!', '\'', 'd', 'w', 's', 'b', 'B', 'A', 'z', 'Z', 'K', 'G',
    'k', 'g', 'h', 'x', 'u', 'p', 'n', 't', 'e', '0', '1', '9', 'é', '€', '😀', 'a', 'Q', 'E', '\u{7ff}', '\u{800}',
];

const SPECIAL: &str = "\\.+*?()|[]{}^$#";

pub const HOSTS: &[(&str, &str, &str)] = &[
    ("bare", "", ""),
    ("(?=)E", "(?=)", ""),
    ("(?:E)", "(?:", ")"),
    ("(?>E)", "(?>", ")"),
    ("(E)", "(", ")"),
    ("(?=E)E*", "(?=", ")"), // filled specially: (?=E)E
    ("E(?<=E)", "", ""),     // filled specially
    ("(?-i:E)", "(?-i:", ")"),
    ("(?:E|(?!))", "(?:", "|(?!))"),
    // the escaped text in one delegated piece together with easy non-literal neighbours
    ("(?=)[a-z]{0}E\\d{0}", "(?=)[a-z]{0}", "\\d{0}"),
    ("(?<![\\s\\S]{99})E[0-9]{0}", "(?<![\\s\\S]{99})", "[0-9]{0}"),
    // free-spacing mode: only for strings without whitespace (which that mode ignores)
    ("(?x:E)", "(?x:", ")"),
    // built with RegexBuilder::case_insensitive(true): the inner (?-i:..) switches it off again, so the
    // escaped text still has to be found exactly as written (VM form; VM form with E in a delegated piece; plain form)
    ("ci-builder: (?-i:E)(?=)", "(?-i:", ")(?=)"),
    ("ci-builder: (?=)(?-i:[a-z]{0}E[0-9]{0})", "(?=)(?-i:[a-z]{0}", "[0-9]{0})"),
    ("ci-builder: (?-i:E)", "(?-i:", ")"),
    // E as the second capture group of one delegated run (the group's span is compared, too)
    ("(\\d{0})(E)(?=)", "(\\d{0})(", ")(?=)"),
    // case-insensitive hosts, only for strings without any cased character (where it cannot matter)
    ("(?i:E(?<=E))", "(?i:", ")"), // filled specially
    ("(?i)(?<![\\s\\S]{99})E", "(?i)(?<![\\s\\S]{99})", ""),
    // the two halves of the string escaped separately (E = E1 E2): nested look-arounds starting at different positions,
    // an atomic group inside a look-behind, redundant groups as the whole body of a look-ahead
    ("E(?<=(?<=E1)E2)", "", ""),
    ("(?=E1(?=E2))E", "", ""),
    ("E(?<=(?>E))", "", ""),
    ("(?=(?:E1)(?:E2))E", "", ""),
    ("(?>(?:E1)(?:E2))(?<=(?:E1)(?:E2))", "", ""),
    // an occurrence directly preceded by another one (the look-behind reads text in front of the match, and in
    // find_iter in front of the search start)
    ("(?<=E)E", "(?<=", ""), // filled specially
];

const X_HOST: usize = 11;

fn swap_case(s: &str) -> String {
    s.chars().map(|c| if c.is_lowercase() { c.to_uppercase().next().unwrap_or(c) } else if c.is_uppercase() { c.to_lowercase().next().unwrap_or(c) } else { c }).collect()
}

fn host_pattern_s(host: usize, s: &str) -> String {
    let mid = s.char_indices().nth(s.chars().count() / 2).map_or(s.len(), |(i, _)| i);
    let (e, e1, e2) = (escape(s), escape(&s[..mid]), escape(&s[mid..]));
    match HOSTS[host].0 {
        "E(?<=(?<=E1)E2)" => format!("{}(?<=(?<={}){})", e, e1, e2),
        "(?=E1(?=E2))E" => format!("(?={}(?={})){}", e1, e2, e),
        "E(?<=(?>E))" => format!("{}(?<=(?>{}))", e, e),
        "(?<=E)E" => format!("(?<={}){}", e, e),
        "(?=(?:E1)(?:E2))E" => format!("(?=(?:{})(?:{})){}", e1, e2, e),
        "(?>(?:E1)(?:E2))(?<=(?:E1)(?:E2))" => format!("(?>(?:{})(?:{}))(?<=(?:{})(?:{}))", e1, e2, e1, e2),
        _ => host_pattern(host, &e),
    }
}

fn host_pattern(host: usize, e: &str) -> String {
    match HOSTS[host].0 {
        "(?=E)E*" => format!("(?={}){}", e, e),
        "E(?<=E)" => format!("{}(?<={})", e, e),
        "(?i:E(?<=E))" => format!("(?i:{}(?<={}))", e, e),
        _ => format!("{}{}{}", HOSTS[host].1, e, HOSTS[host].2),
    }
}

fn texts_for(s: &str) -> Vec<String> {
    let mut v = vec![s.to_string(), format!("xé{}y", s), format!("{}{}", s, s), format!("{}{}{}", s, s, s)];
    // near misses: one character changed / dropped, followed by the real thing
    let chars: Vec<char> = s.chars().collect();
    for i in 0..chars.len() {
        let mut c = chars.clone();
        c[i] = if c[i] == 'a' { 'b' } else { 'a' };
        let miss: String = c.iter().collect();
        v.push(format!("{}-{}", miss, s));
        let mut d = chars.clone();
        d.remove(i);
        let dropped: String = d.iter().collect();
        v.push(format!("{}{}", dropped, s));
        v.push(miss);
    }
    // an occurrence that differs by case only must not be taken
    let sw = swap_case(s);
    if sw != s {
        v.push(format!("{}-{}", sw, s));
        v.push(sw);
    }
    v.push(String::new());
    v.push("\\".to_string());
    v
}

pub struct Info {
    nontrivial: u32,
    class: &'static str,
}

pub fn check_string(s: &str, hosts: &[usize]) -> Result<Info, (usize, String, Fail)> {
    let e = escape(s);
    let needs = s.chars().any(|c| SPECIAL.contains(c));
    let fail0 = |f: Fail| (0usize, String::new(), f);
    if matches!(e, Cow::Borrowed(_)) == needs {
        return Err(fail0(Fail::new("escape-borrow", format!("borrowed iff nothing to escape (needs escaping: {})", needs), format!("borrowed={}", matches!(e, Cow::Borrowed(_))))));
    }
    // escape(s) differs from s only by backslashes inserted in front of special characters
    let mut un = String::new();
    let mut it = e.chars().peekable();
    while let Some(c) = it.next() {
        if c == '\\' {
            match it.next() {
                Some(n) if SPECIAL.contains(n) => un.push(n),
                other => {
                    return Err(fail0(Fail::new("escape-shape", "backslash only in front of a special character", format!("escape({:?}) = {:?} (backslash before {:?})", s, e, other))));
                }
            }
        } else if SPECIAL.contains(c) {
            return Err(fail0(Fail::new("escape-shape", "every special character escaped", format!("escape({:?}) = {:?}", s, e))));
        } else {
            un.push(c);
        }
    }
    if un != s {
        return Err(fail0(Fail::new("escape-shape", format!("{:?}", s), format!("unescaped {:?}", un))));
    }
    let mut nontrivial = 0;
    let texts = texts_for(s);
    for &h in hosts {
        if h == X_HOST && s.chars().any(|c| c.is_whitespace()) {
            continue;
        }
        if HOSTS[h].0.starts_with("(?i") && (s.to_lowercase() != s || s.to_uppercase() != s) {
            continue;
        }
        let pat = host_pattern_s(h, s);
        let built = if HOSTS[h].0.starts_with("ci-builder") {
            engine::build_with(&pat, |b| {
                b.case_insensitive(true);
            })
        } else {
            engine::build(&pat)
        };
        let re = match built {
            Built::Ok(r) => r,
            Built::Err(err) => return Err((h, String::new(), Fail::new("compile-error", "Ok", format!("{} for pattern {:?}", engine::err_kind(&err), pat)))),
            Built::Panic(p) => return Err((h, String::new(), Fail::new("panic", "Ok", format!("PANIC({}) for pattern {:?}", p, pat)))),
        };
        for t in &texts {
            let preceded = HOSTS[h].0 == "(?<=E)E";
            let want = if preceded {
                t.char_indices().map(|(i, _)| i).chain(std::iter::once(t.len())).find(|&i| t[i..].starts_with(s) && t[..i].ends_with(s)).map(|i| (i, i + s.len()))
            } else {
                t.find(s).map(|i| (i, i + s.len()))
            };
            let got = engine::find_from_pos(&re, t, 0);
            if got != engine::Out::Val(want) {
                return Err((h, t.clone(), Fail::new("find", format!("{:?} (str::find)", want), format!("{} with pattern {:?}", got.show(), pat))));
            }
            // every later occurrence as well (searches that start behind the beginning of the text)
            if !s.is_empty() {
                let wants: Vec<(usize, usize)> = if preceded {
                    // successive occurrences that are directly preceded by an occurrence (which may lie before the search start)
                    let mut v = vec![];
                    let mut from = 0;
                    while let Some(i) = (from..=t.len()).filter(|i| t.is_char_boundary(*i)).find(|&i| t[i..].starts_with(s) && t[..i].ends_with(s)) {
                        v.push((i, i + s.len()));
                        from = i + s.len();
                    }
                    v
                } else {
                    t.match_indices(s).map(|(i, _)| (i, i + s.len())).collect()
                };
                let gots = engine::find_iter_spans(&re, t, t.len() + 3);
                if gots != engine::Out::Val((wants.clone(), None)) {
                    return Err((h, t.clone(), Fail::new("find_iter", format!("{:?} (str::match_indices)", wants), format!("{} with pattern {:?}", gots.show(), pat))));
                }
            }
            if HOSTS[h].0 == "(\\d{0})(E)(?=)" {
                let c = engine::captures_from_pos(&re, t, 0);
                let wantc = want.map(|w| vec![Some(w), Some((w.0, w.0)), Some(w)]);
                if c != engine::Out::Val(wantc.clone()) {
                    return Err((h, t.clone(), Fail::new("captures", format!("{:?}", wantc), format!("{} with pattern {:?}", c.show(), pat))));
                }
            }
            if HOSTS[h].0 == "(E)" {
                let c = engine::captures_from_pos(&re, t, 0);
                let wantc = want.map(|w| vec![Some(w), Some(w)]);
                if c != engine::Out::Val(wantc.clone()) {
                    return Err((h, t.clone(), Fail::new("captures", format!("{:?}", wantc), c.show())));
                }
            }
            if needs && matches!(want, Some((i, _)) if i > 0) {
                nontrivial += 1;
            }
        }
    }
    Ok(Info { nontrivial, class: if needs { "string:has-meta-character" } else { "string:plain" } })
}

/// alphabet of the pair stage: meta-characters that change the length of the escaped form, letters, a multi-byte character
pub const PAIR_ALPHA: &[char] = &['.', '+', '(', '|', '\\', '$', '#', '-', ' ', 'a', 'b', 'é', '!'];

/// Two escaped strings as the alternatives of one fancy host. `(?<=E1|E2)!` finds the first `!` that directly
/// follows a literal occurrence of either; `(?:E1|E2)(?=!)` finds, at the leftmost position where one of them is
/// followed by `!`, the first such alternative (the second alternative has to be retried when the look-ahead fails
/// after the first). Returns the number of non-trivial comparisons.
pub fn check_pair(s1: &str, s2: &str) -> Result<u32, (String, String, Fail)> {
    let (e1, e2) = (escape(s1), escape(s2));
    let mut texts: Vec<String> = vec![
        format!("{}!", s1), format!("{}!", s2), format!("x{}!{}!", s2, s1), format!("{}{}!", s1, s2), format!("{}{}!", s2, s1),
        format!("{}-{}!", s1, s2), format!("{}-{}!", s2, s1), format!("!{}", s1), format!("é{}!", s2), String::new(),
    ];
    for s in [s1, s2] {
        // the string with its first / last character dropped in front of the `!`, then the real thing
        let cs: Vec<char> = s.chars().collect();
        if cs.len() >= 1 {
            let head: String = cs[..cs.len() - 1].iter().collect();
            let tail: String = cs[1..].iter().collect();
            texts.push(format!("{}! {}!", head, s));
            texts.push(format!("{}! {}!", tail, s));
        }
    }
    let mut nontrivial = 0;
    let lb = format!("(?<={}|{})!", e1, e2);
    let la = format!("(?:{}|{})(?=!)", e1, e2);
    let lbn = format!("(?<!{}|{})!", e1, e2);
    for (pat, which) in [(&lb, 0), (&la, 1), (&lbn, 2)] {
        let re = match engine::build(pat) {
            Built::Ok(r) => r,
            Built::Err(err) => return Err((pat.clone(), String::new(), Fail::new("compile-error", "Ok (every alternative is a literal of fixed length)", format!("{} for pattern {:?}", engine::err_kind(&err), pat)))),
            Built::Panic(p) => return Err((pat.clone(), String::new(), Fail::new("panic", "Ok", format!("PANIC({}) for pattern {:?}", p, pat)))),
        };
        for t in &texts {
            let want = match which {
                0 => t.match_indices('!').map(|(i, _)| i).find(|&i| t[..i].ends_with(s1) || t[..i].ends_with(s2)).map(|i| (i, i + 1)),
                2 => t.match_indices('!').map(|(i, _)| i).find(|&i| !(t[..i].ends_with(s1) || t[..i].ends_with(s2))).map(|i| (i, i + 1)),
                _ => t.char_indices().map(|(i, _)| i).chain(std::iter::once(t.len())).find_map(|i| {
                    [s1, s2].iter().find(|s| t[i..].starts_with(**s) && t[i + s.len()..].starts_with('!')).map(|s| (i, i + s.len()))
                }),
            };
            let got = engine::find_from_pos(&re, t, 0);
            if got != engine::Out::Val(want) {
                return Err((pat.clone(), t.clone(), Fail::new("find-pair", format!("{:?} (computed with str methods)", want), format!("{} with pattern {:?}", got.show(), pat))));
            }
            if want.is_some() && s1.chars().count() != s2.chars().count() {
                nontrivial += 1;
            }
        }
    }
    Ok(nontrivial)
}

fn random_string(bytes: &[u8]) -> String {
    let mut d = Dec::new(bytes);
    let n = 4 + d.below(9);
    (0..n).map(|_| ALPHA[d.below(ALPHA.len())]).collect()
}

fn shrink(s: &str, hosts: &[usize], kind: &str) -> String {
    let mut cur: Vec<char> = s.chars().collect();
    loop {
        let mut improved = false;
        for i in 0..cur.len() {
            let mut c = cur.clone();
            c.remove(i);
            let t: String = c.iter().collect();
            if matches!(check_string(&t, hosts), Err((_, _, f)) if f.kind == kind) {
                cur = c;
                improved = true;
                break;
            }
        }
        if !improved {
            return cur.into_iter().collect();
        }
    }
}

fn violation(s: &str, hosts: &[usize], f: Fail) -> Violation {
    let small = shrink(s, hosts, &f.kind);
    match check_string(&small, hosts) {
        Err((h, t, f2)) => Violation { case: json!({"string": small, "host": HOSTS[h].0, "host_index": h, "text": t, "pattern": host_pattern_s(h, &small)}), fail: f2 },
        Ok(_) => Violation { case: json!({"string": s}), fail: f },
    }
}

pub fn run(ctx: &RunCtx) -> Outcome {
    let mut o = Outcome::default();
    o.rule = format!("strings: every string of length <= L over {} characters (all regex meta-characters, - & ~ # space newline tab , : < > = ! ', the letters that form escapes after a backslash, digits, é € 😀) exhaustively, plus proptest strings of length 4..12; each escaped and embedded in {} host patterns (bare, (?=)E, (?:E), (?>E), (E), (?=E)E, E(?<=E), (?-i:E), (?:E|(?!)), two hosts that put E into one delegated piece together with empty-matching class repeats, (?x:E) for whitespace-free strings, three hosts built with RegexBuilder::case_insensitive(true) around (?-i:E), E as the second group of a delegated run with its span compared, two (?i) hosts for strings without cased characters, and five hosts that escape the two halves of the string separately (nested look-arounds starting at different positions, an atomic group inside a look-behind, redundant (?:..) groups as the whole body of a look-around)) that cannot change what E matches; pair stage: every ordered pair of non-empty strings of length <= 2 (thorough: first <= 3) over the characters . + ( | \\ $ # - space a b é ! as the two alternatives of (?<=E1|E2)!, (?<!E1|E2)! and (?:E1|E2)(?=!), expected spans computed with str methods. Oracle: the host compiles; on texts built from the string (itself, embedded after a multi-byte prefix, doubled, near misses with one character changed or dropped, a case-swapped occurrence in front) find == str::find and find_iter == str::match_indices; escape borrows iff nothing needed escaping and only inserts backslashes before special characters. Non-trivial = the string has a meta-character and occurs at an offset > 0. Distinct = distinct (string, host, text).", ALPHA.len(), HOSTS.len());
    o.assumptions = vec!["oracle: str::find".into()];
    o.required_classes = vec!["string:has-meta-character".into(), "string:plain".into(), "pair:longer-first".into(), "pair:shorter-first".into()];
    let all_hosts: Vec<usize> = (0..HOSTS.len()).collect();
    let maxlen = if ctx.quick() { 3 } else { 4 };
    let strings = crate::gen::texts(ALPHA, maxlen);
    let found: std::sync::Mutex<Vec<(String, Fail)>> = std::sync::Mutex::new(vec![]);
    let stats = strings
        .par_iter()
        .fold(Stats::default, |mut st, s| {
            if !found.lock().unwrap().is_empty() {
                return st;
            }
            // the longest strings go through three hosts only (bare, VM-forcing, look-behind)
            let hosts: &[usize] = if s.chars().count() >= 3 && ctx.quick() || s.chars().count() >= 4 { &[0, 1, 6, 9, 11, 13, 15, 16, 18, 20, 22, 23] } else { &all_hosts };
            st.evaluations += (hosts.len() * (3 + 3 * s.chars().count() + 2)) as u64;
            st.patterns += 1;
            match check_string(s, hosts) {
                Ok(info) => {
                    st.class(info.class);
                    st.nontrivial_add(hash64(s), info.nontrivial);
                    if st.samples.len() < 2 && st.patterns % 9973 == 1 {
                        st.sample(json!({"string": s, "escaped": escape(s), "hosts": hosts.iter().map(|h| HOSTS[*h].0).collect::<Vec<_>>()}));
                    }
                }
                Err((_, _, f)) => found.lock().unwrap().push((s.clone(), f)),
            }
            st
        })
        .reduce(Stats::default, |mut a, b| {
            a.merge(b);
            a
        });
    o.stats.merge(stats);
    o.exhaustive = Some(format!("all strings of length <= {} over the {}-character alphabet", maxlen, ALPHA.len()));
    o.generators.push(json!({"mode": "exhaustive", "strings": strings.len(), "maxlen": maxlen}));
    let mut f = found.into_inner().unwrap();
    f.sort_by_key(|x| x.0.len());
    if let Some((s, fail)) = f.into_iter().next() {
        o.violations.push(violation(&s, &all_hosts, fail));
        return o;
    }
    // pair stage: two escaped strings as alternatives of a look-behind / in front of a look-ahead
    let pstrings = crate::gen::texts(PAIR_ALPHA, if ctx.quick() { 2 } else { 3 });
    let pstrings: Vec<&String> = pstrings.iter().filter(|s| !s.is_empty()).collect();
    let second: Vec<&String> = if ctx.quick() { pstrings.clone() } else { pstrings.iter().filter(|s| s.chars().count() <= 2).cloned().collect() };
    let pfound: std::sync::Mutex<Vec<(String, String, (String, String, Fail))>> = std::sync::Mutex::new(vec![]);
    let pstats = pstrings
        .par_iter()
        .fold(Stats::default, |mut st, s1| {
            for s2 in &second {
                if !pfound.lock().unwrap().is_empty() {
                    return st;
                }
                st.evaluations += 3 * 14;
                st.patterns += 1;
                match check_pair(s1, s2) {
                    Ok(nt) => {
                        st.class(if s1.chars().count() > s2.chars().count() { "pair:longer-first" } else if s1.chars().count() < s2.chars().count() { "pair:shorter-first" } else { "pair:same-length" });
                        st.nontrivial_add(hash64(&(s1, s2)), nt);
                    }
                    Err(e) => pfound.lock().unwrap().push((s1.to_string(), s2.to_string(), e)),
                }
            }
            st
        })
        .reduce(Stats::default, |mut a, b| {
            a.merge(b);
            a
        });
    o.stats.merge(pstats);
    o.generators.push(json!({"mode": "exhaustive pairs", "first": pstrings.len(), "second": second.len(), "hosts": ["(?<=E1|E2)!", "(?<!E1|E2)!", "(?:E1|E2)(?=!)"]}));
    let mut pf = pfound.into_inner().unwrap();
    pf.sort_by_key(|x| x.0.len() + x.1.len());
    if let Some((s1, s2, (pat, t, fail))) = pf.into_iter().next() {
        o.violations.push(Violation { case: json!({"pair": [s1, s2], "pattern": pat, "text": t}), fail });
        return o;
    }
    let cases: u32 = if ctx.quick() { 30_000 } else { 400_000 };
    let shards = 16u64;
    let results: Vec<(Stats, Option<(String, Fail)>)> = (0..shards)
        .into_par_iter()
        .map(|shard| {
            let config = Config { cases: cases / shards as u32, failure_persistence: None, ..Config::default() };
            let rng = TestRng::from_seed(RngAlgorithm::ChaCha, &ctx.subseed("strings", shard));
            let mut runner = TestRunner::new_with_rng(config, rng);
            let st = std::cell::RefCell::new(Stats::default());
            let failed = std::cell::Cell::new(false);
            let strat = proptest::collection::vec(proptest::num::u8::ANY, 0..16);
            let res = runner.run(&strat, |bytes| {
                let s = random_string(&bytes);
                match check_string(&s, &all_hosts) {
                    Ok(info) => {
                        if !failed.get() {
                            let mut g = st.borrow_mut();
                            g.patterns += 1;
                            g.evaluations += (all_hosts.len() * (5 + 3 * s.chars().count())) as u64;
                            g.class(info.class);
                            g.nontrivial_add(hash64(&s), info.nontrivial);
                        }
                        Ok(())
                    }
                    Err((_, _, f)) => {
                        failed.set(true);
                        Err(TestCaseError::fail(f.kind))
                    }
                }
            });
            let found = match res {
                Err(TestError::Fail(_, bytes)) => {
                    let s = random_string(&bytes);
                    check_string(&s, &all_hosts).err().map(|(_, _, f)| (s, f))
                }
                _ => None,
            };
            (st.into_inner(), found)
        })
        .collect();
    for (s, f) in results {
        o.stats.merge(s);
        if let Some((s, fail)) = f {
            if o.violations.is_empty() {
                o.violations.push(violation(&s, &all_hosts, fail));
            }
        }
    }
    o.generators.push(json!({"mode": "random(proptest bytes -> string)", "cases": cases, "seed": ctx.seed}));
    o
}

pub fn replay(_ctx: &RunCtx, case: &Value) -> Result<Option<Fail>, String> {
    if let Some(p) = case.get("pair").and_then(|x| x.as_array()) {
        let s1 = p.first().and_then(|x| x.as_str()).ok_or("no pair")?;
        let s2 = p.get(1).and_then(|x| x.as_str()).ok_or("no pair")?;
        return Ok(check_pair(s1, s2).err().map(|(_, _, f)| f));
    }
    let s = case.get("string").and_then(|x| x.as_str()).ok_or("no string")?;
    let all_hosts: Vec<usize> = (0..HOSTS.len()).collect();
    Ok(check_string(s, &all_hosts).err().map(|(_, _, f)| f))
}

/// fuzz entry: the input is the string itself when it is valid UTF-8 of at most 12 characters, otherwise it is
/// decoded over the check's alphabet
pub fn fuzz_one(data: &[u8]) -> Option<(Value, Fail)> {
    let s = match std::str::from_utf8(data) {
        Ok(s) if s.chars().count() <= 12 => s.to_string(),
        _ => random_string(data),
    };
    let all_hosts: Vec<usize> = (0..HOSTS.len()).collect();
    match check_string(&s, &all_hosts) {
        Ok(_) => None,
        Err((_, _, f)) => {
            let v = violation(&s, &all_hosts, f);
            Some((v.case, v.fail))
        }
    }
}
