//! C04: on the syntax shared with the regex crate the whole API agrees with it (differential).
use super::c01::{stage, stage_random};
use super::space;
use crate::ast::{Node, Node::*, PrintOpts, A, Q};
use crate::core::*;
use crate::engine::{self, Built};
use crate::gen::{self, RandCfg};
use crate::refm::Span;
use fancy_regex::NoExpand as FNoExpand;
use std::borrow::Cow;
use std::panic::{catch_unwind, AssertUnwindSafe};

pub struct VsRegex {
    /// name the first group `n` (style 0: `(?<n>`, 1: `(?P<n>`)
    pub named: Option<u8>,
}

pub struct VP {
    fr: fancy_regex::Regex,
    rr: regex::Regex,
    vm: bool,
    special: bool,
    has_name: bool,
}

fn fcaps(c: &fancy_regex::Captures) -> Vec<Span> {
    c.iter().map(|m| m.map(|m| (m.start(), m.end()))).collect()
}
fn rcaps(c: &regex::Captures) -> Vec<Span> {
    c.iter().map(|m| m.map(|m| (m.start(), m.end()))).collect()
}
/// The regex crate forgets trailing groups that can never participate in a match (`(a){0}`), while
/// the crate under test keeps the syntactic group count (C16): such groups are "unset" on both sides.
fn pad(mut r: Vec<Span>, n: usize) -> Vec<Span> {
    while r.len() < n {
        r.push(None);
    }
    r
}

impl VsRegex {
    fn opts(&self, n: &Node) -> PrintOpts {
        match self.named {
            Some(style) if n.n_groups() >= 1 => {
                let mut names = vec![None; n.n_groups()];
                names[0] = Some("n".to_string());
                PrintOpts { names, name_style: style, ..Default::default() }
            }
            _ => PrintOpts::default(),
        }
    }
}

impl PatProp for VsRegex {
    type P = VP;
    fn all_offsets(&self) -> bool {
        false
    }
    fn spell(&self, n: &Node) -> String {
        n.to_pattern_with(&self.opts(n))
    }
    fn extra(&self) -> serde_json::Value {
        serde_json::json!({"named": self.named})
    }
    fn prepare(&self, ctx: &RunCtx, n: &Node, pat: &str, st: &mut Stats) -> Prep<VP> {
        let rr = match regex::Regex::new(pat) {
            Ok(r) => r,
            Err(_) => {
                return match engine::build(pat) {
                    Built::Panic(p) => Prep::Fail(Fail::new("compile-panic", "Ok or Err", p)),
                    Built::Ok(_) => Prep::Skip("one-sided:only-fancy-compiles"),
                    Built::Err(_) => Prep::Skip("compile:both-reject"),
                }
            }
        };
        let fr = match engine::build(pat) {
            Built::Ok(r) => r,
            Built::Err(_) => return Prep::Skip("one-sided:only-regex-compiles"),
            Built::Panic(p) => return Prep::Fail(Fail::new("compile-panic", "Ok or Err", p)),
        };
        let vm = engine::is_vm(&fr);
        if vm && n.has_f1() && ctx.active("unbounded_repeat_nullable_body") {
            return Prep::Excluded("F1:unbounded_repeat_nullable_body");
        }
        if n.has_leaky_inline_flag() && ctx.active("inline_flag_inside_non_flag_group") {
            return Prep::Excluded("F5:inline_flag_inside_non_flag_group");
        }
        if n.has_spaced_class_under_x() && ctx.active("class_whitespace_under_x_flag") {
            return Prep::Excluded("F23:class_whitespace_under_x_flag");
        }
        st.class(if vm { "engine:VM" } else { "engine:Wrap" });
        let special = n.any(|x| matches!(x, Assert(A::WordB | A::NotWordB | A::WordStart | A::WordEnd) | Flags(..) | SetFlags(..)));
        if n.any(|x| matches!(x, Flags(..) | SetFlags(..))) {
            st.class("feature:flags");
        }
        if n.any(|x| matches!(x, Assert(A::WordB | A::NotWordB | A::WordStart | A::WordEnd))) {
            st.class("feature:word-boundary");
        }
        let has_name = self.named.is_some() && n.n_groups() >= 1;
        if has_name {
            st.class("feature:named-group");
        }
        Prep::Ready(VP { fr, rr, vm, special, has_name })
    }

    fn eval(&self, _ctx: &RunCtx, p: &VP, _n: &Node, t: &str, _pos: usize) -> Verdict {
        let (fr, rr) = (&p.fr, &p.rr);
        let r = catch_unwind(AssertUnwindSafe(|| -> Result<bool, Fail> {
            // a backtrack-limit / stack error is the documented resource limit of the backtracking engine, judged
            // by C07 (which bounds when it may occur); here it ends the comparison of this case
            let e = |what: &str, e: fancy_regex::Error| {
                let k = engine::err_kind(&e);
                if k == "BacktrackLimitExceeded" || k == "StackOverflow" {
                    Fail::new("resource-limit", "", k)
                } else {
                    Fail::new("runtime-error", "no error", format!("{}: {}", what, k))
                }
            };
            let mut nonempty = false;
            let im = fr.is_match(t).map_err(|x| e("is_match", x))?;
            if im != rr.is_match(t) {
                return Err(Fail::new("is_match", format!("{}", rr.is_match(t)), format!("{}", im)));
            }
            nonempty |= im;
            let ff = fr.find(t).map_err(|x| e("find", x))?.map(|m| (m.start(), m.end()));
            let rf = rr.find(t).map(|m| (m.start(), m.end()));
            if ff != rf {
                return Err(Fail::new("find", format!("{:?}", rf), format!("{:?}", ff)));
            }
            let mut from = 0;
            loop {
                let f = fr.captures_from_pos(t, from).map_err(|x| e("captures_from_pos", x))?.map(|c| fcaps(&c));
                let r = rr.captures_at(t, from).map(|c| pad(rcaps(&c), fr.captures_len()));
                if f != r {
                    return Err(Fail::new("captures_from_pos", format!("from {}: {:?}", from, r), format!("{:?}", f)));
                }
                let f = fr.find_from_pos(t, from).map_err(|x| e("find_from_pos", x))?.map(|m| (m.start(), m.end()));
                let r = rr.find_at(t, from).map(|m| (m.start(), m.end()));
                if f != r {
                    return Err(Fail::new("find_from_pos", format!("from {}: {:?}", from, r), format!("{:?}", f)));
                }
                match t[from..].chars().next() {
                    Some(c) => from += c.len_utf8(),
                    None => break,
                }
            }
            let bound = t.len() + 3;
            let mut f = vec![];
            for m in fr.find_iter(t) {
                let m = m.map_err(|x| e("find_iter", x))?;
                f.push((m.start(), m.end()));
                if f.len() > bound {
                    break;
                }
            }
            let r: Vec<_> = rr.find_iter(t).map(|m| (m.start(), m.end())).collect();
            if f != r {
                return Err(Fail::new("find_iter", format!("{:?}", r), format!("{:?}", f)));
            }
            let mut f = vec![];
            for c in fr.captures_iter(t) {
                f.push(fcaps(&c.map_err(|x| e("captures_iter", x))?));
                if f.len() > bound {
                    break;
                }
            }
            let r: Vec<_> = rr.captures_iter(t).map(|c| pad(rcaps(&c), fr.captures_len())).collect();
            if f != r {
                return Err(Fail::new("captures_iter", format!("{:?}", r), format!("{:?}", f)));
            }
            let mut f = vec![];
            for s in fr.split(t) {
                f.push(s.map_err(|x| e("split", x))?);
                if f.len() > bound + 1 {
                    break;
                }
            }
            let r: Vec<_> = rr.split(t).collect();
            if f != r {
                return Err(Fail::new("split", format!("{:?}", r), format!("{:?}", f)));
            }
            for lim in 0..4usize {
                let mut f = vec![];
                for s in fr.splitn(t, lim) {
                    f.push(s.map_err(|x| e("splitn", x))?);
                }
                let r: Vec<_> = rr.splitn(t, lim).collect();
                if f != r {
                    return Err(Fail::new("splitn", format!("limit {}: {:?}", lim, r), format!("{:?}", f)));
                }
                let mut tpls = vec!["<$0>", "${1}x$$", "$1x", "X", "", "$$", "a$$b$"];
                if p.has_name {
                    tpls.push("[$n]");
                    tpls.push("${n}$n1");
                }
                for tpl in tpls {
                    let f = fr.try_replacen(t, lim, tpl).map_err(|x| e("replacen", x))?;
                    let r = rr.replacen(t, lim, tpl);
                    if f != r {
                        return Err(Fail::new("replacen", format!("limit {} template {:?}: {:?}", lim, tpl, r), format!("{:?}", f)));
                    }
                    if matches!(f, Cow::Borrowed(_)) != matches!(r, Cow::Borrowed(_)) {
                        return Err(Fail::new("replacen-borrow", format!("limit {} template {:?}: borrowed={}", lim, tpl, matches!(r, Cow::Borrowed(_))), format!("borrowed={}", matches!(f, Cow::Borrowed(_)))));
                    }
                }
                let f = fr.try_replacen(t, lim, FNoExpand("$0")).map_err(|x| e("replacen", x))?;
                let r = rr.replacen(t, lim, regex::NoExpand("$0"));
                if f != r {
                    return Err(Fail::new("replacen-noexpand", format!("limit {}: {:?}", lim, r), format!("{:?}", f)));
                }
            }
            let f = fr.replace(t, "<$0>");
            let r = rr.replace(t, "<$0>");
            if f != r {
                return Err(Fail::new("replace", format!("{:?}", r), format!("{:?}", f)));
            }
            let f = fr.replace_all(t, "<$0>");
            let r = rr.replace_all(t, "<$0>");
            if f != r {
                return Err(Fail::new("replace_all", format!("{:?}", r), format!("{:?}", f)));
            }
            Ok(nonempty)
        }));
        match r {
            Err(e) => Verdict::Fail(Fail::new("panic", "as the regex crate", format!("PANIC({})", engine::panic_msg(e)))),
            Ok(Err(f)) if f.kind == "resource-limit" => Verdict::Skip("runtime resource limit (judged by C07)"),
            Ok(Err(f)) => Verdict::Fail(f),
            Ok(Ok(m)) => Verdict::Pass { nontrivial: m && (p.special || p.vm), class: if m { Some("outcome:match") } else { None } },
        }
    }
}

fn flag_variants(bases: &[Node]) -> Vec<Node> {
    let mut out = vec![];
    let groups: [(&str, &str); 12] = [("i", ""), ("s", ""), ("m", ""), ("U", ""), ("x", ""), ("is", ""), ("", "i"), ("m", "s"), ("i", "sm"), ("", "is"), ("s", "im"), ("ms", "iU")];
    for b in bases {
        for (on, off) in groups {
            // scoped group around the whole pattern, inline at the start, and around / inside the first child
            out.push(Flags(on.into(), off.into(), Box::new(b.clone())));
            if !on.is_empty() {
                out.push(super::api::flatten(Concat(vec![SetFlags(on.into(), off.into()), b.clone()])));
            }
            if let Concat(v) = b {
                let mut w = v.clone();
                w[0] = Flags(on.into(), off.into(), Box::new(v[0].clone()));
                out.push(Concat(w));
                if !on.is_empty() {
                    // inline flag in the middle: affects only what follows
                    let mut w = v.clone();
                    w.insert(1, SetFlags(on.into(), off.into()));
                    out.push(Concat(w));
                }
            }
            if !on.is_empty() && off.is_empty() {
                // switch on, later switch everything off again inline: (?is) X (?-is) . a
                out.push(super::api::flatten(Concat(vec![SetFlags(on.into(), "".into()), b.clone(), SetFlags("".into(), on.into()), Any, Lit('a')])));
            }
            if let Group(c) = b {
                if !on.is_empty() {
                    // inline flag inside a capturing group followed by more pattern (F5 territory)
                    out.push(Concat(vec![Group(Box::new(super::api::flatten(Concat(vec![SetFlags(on.into(), off.into()), (**c).clone()])))), Lit('b'), Any]));
                }
            }
        }
        // (?i: .. (?-i: ..) ..)
        if let Concat(v) = b {
            let mut w = v.clone();
            let last = w.len() - 1;
            w[last] = Flags("".into(), "i".into(), Box::new(v[last].clone()));
            out.push(Flags("i".into(), "".into(), Box::new(Concat(w))));
        }
    }
    gen::dedup_by_print(out)
}

pub fn run(ctx: &RunCtx) -> Outcome {
    let mut o = Outcome::default();
    o.rule = "common-syntax grammar (literals incl. é and upper case, ., (?s:.), classes, \\w \\W, ^ $ (?m:^) (?m:$), \\b \\B \\< \\>, groups, named groups in both spellings, scoped and inline flags i m s x U, greedy / lazy / counted quantifiers): exhaustive trees by node count, flag variants of the smaller trees, proptest random ASTs; a pattern is in the domain iff both crates compile it (one-sided failures counted under skipped). Per text: is_match, find, captures_at/find_at at every offset, find_iter, captures_iter, split, splitn(0..3), replacen(0..3) with templates {<$0>, ${1}x$$, $1x, X, empty, [$n], ${n}$n1} and NoExpand incl. the Borrowed/Owned distinction, replace, replace_all - all compared with regex::Regex. Non-trivial = some API reported a match and the pattern has a word-boundary assertion, a flag, or is VM-compiled. Distinct = distinct (pattern, text).".into();
    o.assumptions = vec!["oracle: the regex crate (regex 1.x from the cargo cache), same version family the crate itself delegates to".into()];
    o.required_classes = vec!["engine:VM".into(), "engine:Wrap".into(), "feature:flags".into(), "feature:word-boundary".into(), "feature:named-group".into()];
    let quick = ctx.quick();
    let plain = VsRegex { named: None };
    let cfg = gen::common_cfg();
    let n = if quick { 4 } else { 5 };
    let mut cfg_n = gen::common_cfg();
    if !quick {
        cfg_n.leaves.retain(|l| !matches!(l, AnyNl | Perl('W') | Assert(A::StartLine) | Assert(A::WordStart) | Assert(A::WordEnd) | Class(true, _)));
    }
    let pats = space(&cfg_n, n, false);
    let texts = gen::text_set(&gen::SIGMA5, 3, if quick { 0 } else { 5 });
    if quick {
        // the largest trees on a four-letter alphabet, the smaller ones on the full text set
        let (small, large): (Vec<Node>, Vec<Node>) = pats.into_iter().partition(|x| x.size() <= 3);
        let mut texts_cr = texts.clone();
        texts_cr.extend(gen::cr_texts());
        if !stage(ctx, &mut o, &plain, "common syntax N<=3", &small, &texts_cr) {
            return o;
        }
        let t4 = gen::texts(&['a', 'b', 'é', '\n'], 3);
        if !stage(ctx, &mut o, &plain, "common syntax N=4", &large, &t4) {
            return o;
        }
    } else if !stage(ctx, &mut o, &plain, &format!("common syntax N<={}", n), &pats, &texts) {
        return o;
    }
    o.exhaustive = Some(format!("all trees with <= {} nodes over the common-syntax leaf/operator set x all texts over {{a,b,é,\\n,-}} of length <= 3", n));
    // characters on the UTF-8 length-class boundaries
    {
        let small = space(&cfg, 3, false);
        if !stage(ctx, &mut o, &plain, "common syntax N<=3 x UTF-8 edge texts", &small, &gen::edge_texts()) {
            return o;
        }
    }
    // character-class syntax (the crate parses classes itself before handing them on)
    {
        const CLASSES: &[&str] = &[
            "[ab]", "[^ab]", "[a-c]", "[]a]", "[^]a]", "[a\\]]", "[a\\-c]", "[a-]", "[-a]", "[\\d]", "[\\w-]", "[^\\W]", "[\\s\\S]", "[a-c&&[^b]]", "[\\w&&[^a]]", "[[:alpha:]]", "[[:^digit:]x]",
            "[a[bc]]", "[^a[^b]]", "[\\n]", "[\\t ]", "[\\x61]", "[\\x{61}-\\x{63}]", "[\\u0061]", "[.]", "[*+?]", "[(|)]", "[{}]", "[\\^a]", "[a^]", "[é-ë]", "[\\p{L}]", "[\\PL]", "[^\\p{Lu}a]",
            "\\p{Greek}", "\\pL", "\\PL", "[\\\\]", "[\\]\\[]", "[a-c[x-z]]", "[^\\n]", "[\\d&&[^1]]", "[A-Za-z_]", "[^-]", "[\\.-a]", "[a b]", "[ ]", "[a\\ b]", "[^ a]", "[a #]", "[a-c ]",
        ];
        let mut v = vec![];
        for c in CLASSES {
            let r = Raw(c.to_string(), false);
            v.push(r.clone());
            v.push(Repeat(Box::new(r.clone()), 1, None, Q::Greedy));
            v.push(Group(Box::new(r.clone())));
            v.push(Concat(vec![Assert(A::WordB), r.clone()]));
            v.push(Concat(vec![r.clone(), Assert(A::NotWordB)]));
            v.push(Concat(vec![Assert(A::WordB), Repeat(Box::new(r.clone()), 0, None, Q::Lazy), Lit('a')]));
            v.push(Flags("i".into(), "".into(), Box::new(r.clone())));
            v.push(Concat(vec![Flags("i".into(), "".into(), Box::new(r.clone())), Assert(A::WordB)]));
            v.push(Concat(vec![Raw("[^\\n]".into(), false), r.clone()]));
            // free-spacing mode around a class (both crates have to read the class the same way)
            v.push(Flags("x".into(), "".into(), Box::new(r.clone())));
            v.push(Concat(vec![Flags("x".into(), "".into(), Box::new(r.clone())), Assert(A::WordB)]));
            v.push(Alt(vec![Concat(vec![Assert(A::WordB), r.clone()]), Lit('a')]));
        }
        let ctexts = gen::texts(&['a', 'b', 'c', '-', ']', '[', '^', '\\', '1', ' ', 'é', 'A', '.', 'x', 'α', '\n'], 2);
        if !stage(ctx, &mut o, &plain, "character-class syntax", &v, &ctexts) {
            return o;
        }
    }
    // plain groups / alternations whose concatenation ends in a constant-size element, next to a word boundary
    // (the compiler may only hand a piece to the automata engine atomically if it really is constant-size)
    {
        let bx = |n: Node| Box::new(n);
        let star = |n: Node, q: Q| Repeat(bx(n), 0, None, q);
        let inner: Vec<Node> = vec![
            Concat(vec![star(Any, Q::Greedy), Lit('a')]),
            Concat(vec![star(Lit('a'), Q::Greedy), Lit('b')]),
            Concat(vec![Repeat(bx(Lit('a')), 0, Some(1), Q::Greedy), Lit('a')]),
            Concat(vec![Repeat(bx(Perl('w')), 1, None, Q::Greedy), Lit(' ')]),
            Concat(vec![star(Perl('w'), Q::Lazy), Lit('a')]),
            Alt(vec![Lit('a'), Concat(vec![Lit('a'), Lit('b')])]),
            Concat(vec![Alt(vec![Lit('a'), Concat(vec![Lit('a'), Lit('b')])]), Lit('b')]),
            Concat(vec![Repeat(bx(Class(false, vec![('a', 'b')])), 1, Some(2), Q::Greedy), Any]),
        ];
        let mut v = vec![];
        for i in &inner {
            for wrap in 0..3 {
                let w = match wrap {
                    0 => Group(bx(i.clone())),
                    1 => Alt(vec![i.clone(), Lit('b')]),
                    _ => Repeat(bx(Group(bx(i.clone()))), 1, Some(2), Q::Greedy),
                };
                for b in [A::WordB, A::NotWordB, A::WordEnd] {
                    v.push(super::api::flatten(Concat(vec![w.clone(), Assert(b), Lit(' '), Lit('b')])));
                    v.push(super::api::flatten(Concat(vec![w.clone(), Assert(b)])));
                    v.push(super::api::flatten(Concat(vec![Lit('b'), Assert(b), w.clone(), Lit('b')])));
                    v.push(super::api::flatten(Concat(vec![w.clone(), Assert(b), star(Perl('w'), Q::Greedy), Lit('b')])));
                }
            }
        }
        let v = gen::dedup_by_print(v);
        let mut wt = gen::texts(&['a', 'b', ' '], 5);
        wt.extend(["a b a c", "ab ab b", "aa a b", "a=b;c=d", "bab abb"].iter().map(|s| s.to_string()));
        if !stage(ctx, &mut o, &plain, "groups ending in a constant-size element next to a word boundary", &v, &wt) {
            return o;
        }
    }
    // repeat bounds of three and four digits (printed back for the automata engine digit by digit)
    {
        let bx = |n: Node| Box::new(n);
        let mut v = vec![];
        for (lo, hi) in [(256u32, Some(256u32)), (2, Some(300)), (255, Some(257)), (1000, Some(1000)), (100, Some(100)), (260, None), (99, Some(1001))] {
            for atom in [Lit('a'), Class(false, vec![('a', 'b')])] {
                let r = Repeat(bx(atom.clone()), lo, hi, Q::Greedy);
                v.push(r.clone());
                v.push(super::api::flatten(Concat(vec![Assert(A::StartText), r.clone(), Assert(A::WordB)])));
                v.push(super::api::flatten(Concat(vec![Assert(A::WordB), r.clone(), Lit('b')])));
            }
        }
        let bt: Vec<String> = [250usize, 255, 256, 257, 260, 300, 304, 999, 1000, 1002].iter().flat_map(|n| vec!["a".repeat(*n), format!("{}b", "a".repeat(*n)), format!("b {}", "a".repeat(*n))]).collect();
        let lp = VsRegex { named: None };
        if !stage(ctx, &mut o, &lp, "repeat bounds of three and four digits", &v, &bt) {
            return o;
        }
    }
    // flags and case: bases N<=3 with an upper-case literal added
    let mut fcfg = gen::common_cfg();
    fcfg.leaves = vec![Lit('a'), Lit('B'), Any, Class(false, vec![('a', 'b')]), Class(true, vec![('A', 'A')]), Perl('w'), Assert(A::StartText), Assert(A::EndText), Assert(A::WordB), Lit('é'), Lit('\n')];
    let fbases = space(&fcfg, 3, false);
    let fpats = flag_variants(&fbases);
    let mut ftexts = if quick { gen::texts(&['a', 'A', 'B', '\n'], 3) } else { gen::texts(&['a', 'A', 'B', 'é', '\n'], 3) };
    // non-ASCII letters in the other case
    ftexts.extend(["é", "É", "éÉ", "aÉ", "Éa", "É\n", "bÉB", "Éé", "aé", " É "].iter().map(|s| s.to_string()));
    if !stage(ctx, &mut o, &plain, "flag variants of N<=3 bases", &fpats, &ftexts) {
        return o;
    }
    // named groups
    for style in [0u8, 1u8] {
        let np = VsRegex { named: Some(style) };
        let gpats: Vec<Node> = space(&cfg, 3, false).into_iter().filter(|x| x.n_groups() >= 1).collect();
        if !stage(ctx, &mut o, &np, &format!("named first group (style {})", style), &gpats, &texts) {
            return o;
        }
    }
    // random: plain grammar through the shared decoder, restricted to the common subset
    let rcfg = RandCfg { lits: vec!['a', 'b', 'B', 'é'], keepout: false, lookbehind: false, plain: true, ..RandCfg::core() };
    let cases = if quick { 50_000 } else { 2_000_000 };
    let rtexts = {
        let mut t = gen::texts(&['a', 'b', 'B'], 3);
        t.extend(["aaab", "abab", "a b", "ab\nab", "éa é", "aBab"].iter().map(|s| s.to_string()));
        t
    };
    stage_random(ctx, &mut o, &plain, "random common syntax", &rcfg, &rtexts, cases, &|x| {
        !x.any(|y| matches!(y, Look(..) | Atomic(_) | Backref(_) | KeepOut | ContG | CondGroup(..) | CondExpr(..) | GroupExists(_) | Repeat(_, _, _, Q::Poss)))
    });
    o
}
