//! API-level properties over generated patterns: C05 (safety / valid offsets), C08 (find_iter vs
//! reference iteration model), C09 (coherence of entry points), C10 (split), C11 (replace),
//! C16 (group metadata).
use super::c01::{stage, stage_random};
use super::diffref::{known_class, vm_class};
use super::{product_space, space};
use crate::ast::{Node, Node::*, PrintOpts};
use crate::core::*;
use crate::engine::{self, guard, Built, Out};
use crate::gen::{self, RandCfg};
use crate::model;
use crate::refm;
use fancy_regex::{Captures, NoExpand, Regex};
use std::borrow::Cow;
use std::panic::{catch_unwind, AssertUnwindSafe};

fn build_or_skip(pat: &str) -> Result<Regex, Prep<()>> {
    match engine::build(pat) {
        Built::Ok(r) => Ok(r),
        Built::Err(e) => Err(Prep::Skip(match engine::err_kind(&e).as_str() {
            "LookBehindNotConst" => "compile:LookBehindNotConst",
            k if k.starts_with("ParseError") => "compile:ParseError",
            k if k.contains("InvalidBackref") => "compile:InvalidBackref",
            _ => "compile:other-error",
        })),
        Built::Panic(p) => Err(Prep::Fail(Fail::new("compile-panic", "Ok or Err", p))),
    }
}

fn conv<T>(p: Prep<()>) -> Prep<T> {
    match p {
        Prep::Skip(s) => Prep::Skip(s),
        Prep::Excluded(s) => Prep::Excluded(s),
        Prep::Fail(f) => Prep::Fail(f),
        Prep::Ready(()) => unreachable!(),
    }
}

fn span_ok(t: &str, s: usize, e: usize) -> bool {
    s <= e && e <= t.len() && t.is_char_boundary(s) && t.is_char_boundary(e)
}

fn multibyte(t: &str) -> bool {
    !t.is_ascii()
}

// ---------------------------------------------------------------------------------------------
// C05

pub struct Safety;

pub struct SP {
    re: Regex,
    vm: bool,
    /// the same pattern under backtrack_limit(1): searches may fail with an Err, nothing may panic or run away
    limited: Option<Regex>,
}

fn check_caps(t: &str, c: &Captures<'_>) -> Result<(), String> {
    for i in 0..c.len() {
        if let Some(m) = c.get(i) {
            if !span_ok(t, m.start(), m.end()) {
                return Err(format!("group {} span {}..{} invalid for text of length {}", i, m.start(), m.end(), t.len()));
            }
            let _ = m.as_str();
            let _ = m.range();
            let _ = &c[i];
        }
    }
    if c.get(0).is_none() {
        return Err("group 0 is None on a successful match".into());
    }
    for i in [usize::MAX, usize::MAX / 2 + 1, usize::MAX / 2 + 2] {
        if let Some(m) = c.get(i) {
            return Err(format!("get({}) is Some({}..{}) although there is no such group", i, m.start(), m.end()));
        }
    }
    let mut dst = String::new();
    c.expand("$0-$1-${2}", &mut dst);
    for g in c.iter().flatten() {
        let _ = g.as_str();
    }
    Ok(())
}

impl PatProp for Safety {
    type P = SP;
    fn prepare(&self, _ctx: &RunCtx, n: &Node, pat: &str, st: &mut Stats) -> Prep<SP> {
        let re = match build_or_skip(pat) {
            Ok(r) => r,
            Err(p) => return conv(p),
        };
        let vm = engine::is_vm(&re);
        st.class(vm_class(pat, vm));
        for f in n.features() {
            st.class(&format!("feature:{}", f));
        }
        if !n.refs_valid(false) {
            st.class("feature:reference-to-open-group");
        }
        if n.has_f1() {
            st.class("feature:nullable-unbounded-loop");
        }
        let limited = if vm {
            match engine::build_with(pat, |b| {
                b.backtrack_limit(1);
            }) {
                Built::Ok(r) => Some(r),
                _ => None,
            }
        } else {
            None
        };
        Prep::Ready(SP { re, vm, limited })
    }

    fn eval(&self, _ctx: &RunCtx, p: &SP, _n: &Node, t: &str, pos: usize) -> Verdict {
        let re = &p.re;
        let mut any_match = false;
        // every call must return normally; Err values are acceptable outcomes
        let r = catch_unwind(AssertUnwindSafe(|| -> Result<bool, (String, String)> {
            let mut matched = false;
            if let Ok(Some(m)) = re.find_from_pos(t, pos) {
                matched = true;
                if !span_ok(t, m.start(), m.end()) {
                    return Err(("invalid-span".into(), format!("find_from_pos {}..{}", m.start(), m.end())));
                }
                let _ = m.as_str();
            }
            if let Ok(Some(c)) = re.captures_from_pos(t, pos) {
                matched = true;
                check_caps(t, &c).map_err(|e| ("invalid-span".to_string(), format!("captures_from_pos: {}", e)))?;
            }
            if pos == 0 {
                let _ = re.is_match(t);
                let bound = t.len() + 3;
                let mut k = 0;
                for m in re.find_iter(t) {
                    k += 1;
                    if k > bound {
                        return Err(("nontermination".into(), format!("find_iter yielded more than {} items", bound)));
                    }
                    match m {
                        Ok(m) => {
                            if !span_ok(t, m.start(), m.end()) {
                                return Err(("invalid-span".into(), format!("find_iter {}..{}", m.start(), m.end())));
                            }
                        }
                        Err(_) => {}
                    }
                }
                k = 0;
                for c in re.captures_iter(t) {
                    k += 1;
                    if k > bound {
                        return Err(("nontermination".into(), format!("captures_iter yielded more than {} items", bound)));
                    }
                    if let Ok(c) = c {
                        check_caps(t, &c).map_err(|e| ("invalid-span".to_string(), format!("captures_iter: {}", e)))?;
                    }
                }
                k = 0;
                for s in re.split(t) {
                    k += 1;
                    if k > bound + 1 {
                        return Err(("nontermination".into(), "split does not end".into()));
                    }
                    let _ = s;
                }
                // collecting with "no limit" spelled usize::MAX, and the size_hint contract of the iterators
                let n_all = re.splitn(t, usize::MAX).collect::<Vec<_>>().len();
                for (name, (lo, hi), n) in [
                    ("splitn(usize::MAX)", re.splitn(t, usize::MAX).size_hint(), n_all),
                    ("splitn(2)", re.splitn(t, 2).size_hint(), re.splitn(t, 2).count()),
                    ("split", re.split(t).size_hint(), re.split(t).count()),
                    ("find_iter", re.find_iter(t).size_hint(), re.find_iter(t).count()),
                    ("captures_iter", re.captures_iter(t).size_hint(), re.captures_iter(t).count()),
                ] {
                    if lo > n || hi.map_or(false, |h| h < n) {
                        return Err(("size_hint".into(), format!("{}: size_hint ({}, {:?}) but {} items", name, lo, hi, n)));
                    }
                }
                for lim in 0..3 {
                    for s in re.splitn(t, lim) {
                        let _ = s;
                    }
                    let _ = re.try_replacen(t, lim, "X");
                    let _ = re.try_replacen(t, lim, "<$0|$1>");
                    let _ = re.try_replacen(t, lim, |c: &Captures<'_>| c[0].to_string());
                    let _ = re.try_replacen(t, lim, NoExpand("$0"));
                }
            }
            if pos == 0 {
                if let Some(lre) = &p.limited {
                    // error histories: keep pulling after an Err; every iterator must still end, with valid spans
                    let bound = t.len() + 4;
                    let mut k = 0;
                    for m in lre.find_iter(t) {
                        k += 1;
                        if k > bound {
                            return Err(("nontermination".into(), "find_iter under backtrack_limit(1) does not end".into()));
                        }
                        if let Ok(m) = m {
                            if !span_ok(t, m.start(), m.end()) {
                                return Err(("invalid-span".into(), format!("find_iter under backtrack_limit(1): {}..{}", m.start(), m.end())));
                            }
                            let _ = m.as_str();
                        }
                    }
                    k = 0;
                    for c in lre.captures_iter(t) {
                        k += 1;
                        if k > bound {
                            return Err(("nontermination".into(), "captures_iter under backtrack_limit(1) does not end".into()));
                        }
                        if let Ok(c) = c {
                            check_caps(t, &c).map_err(|e| ("invalid-span".to_string(), format!("captures_iter under backtrack_limit(1): {}", e)))?;
                        }
                    }
                    k = 0;
                    for s in lre.split(t) {
                        k += 1;
                        if k > bound + 1 {
                            return Err(("nontermination".into(), "split under backtrack_limit(1) does not end".into()));
                        }
                        let _ = s;
                    }
                    for s in lre.splitn(t, 3) {
                        let _ = s;
                    }
                    let _ = lre.try_replacen(t, 0, "X");
                    let _ = lre.try_replacen(t, 0, "$0");
                }
            }
            Ok(matched)
        }));
        match r {
            Ok(Ok(m)) => any_match = m || any_match,
            Ok(Err((kind, what))) => return Verdict::Fail(Fail::new(&kind, "start <= end <= len on char boundaries; iteration ends", what)),
            Err(e) => return Verdict::Fail(Fail::new("panic", "a value or an Err", format!("PANIC({})", engine::panic_msg(e)))),
        }
        Verdict::Pass { nontrivial: p.vm && any_match && multibyte(t), class: if any_match { Some("outcome:match") } else { Some("outcome:no-match") } }
    }
}

pub fn wild_texts(quick: bool) -> Vec<String> {
    let mut t = gen::texts(&gen::MB, 3);
    t.extend(gen::texts(&['a', 'b'], if quick { 4 } else { 6 }).into_iter().filter(|s| s.len() >= 2));
    // characters whose UTF-8 lead bytes sit on the boundaries of the length classes
    // (C2, DF | E0, EF | F0, F4): U+0080, U+07FF, U+0800, U+FFFD, U+10000, U+10FFFF
    let edge = ['\u{80}', '\u{7ff}', '\u{800}', '\u{fffd}', '\u{10000}', '\u{10ffff}'];
    for c in edge {
        t.push(format!("{}", c));
        t.push(format!("{}a", c));
        t.push(format!("a{}a", c));
        t.push(format!("{}aa", c));
        t.push(format!("{}{}", c, c));
    }
    t
}

fn wild_spaces(ctx: &RunCtx) -> (Vec<Node>, Vec<Node>) {
    let n = if ctx.quick() { 4 } else { 5 };
    let mut cfg = gen::wild_cfg();
    if !ctx.quick() {
        // keep the N<=5 enumeration affordable
        cfg.leaves.retain(|l| !matches!(l, Lit('é') | Assert(crate::ast::A::EndText)));
    }
    (space(&cfg, n, true), product_space(true, 2))
}

pub fn run_c05(ctx: &RunCtx) -> Outcome {
    let p = Safety;
    let mut o = Outcome::default();
    o.rule = "unrestricted grammar (self-referential back-references, nullable loops, \\K and \\G anywhere, both conditional forms, nested look-arounds): exhaustive trees by node count, context x filler products, proptest byte vectors decoded into ASTs; texts over {a,é,€,😀,\\n} (<=3) and {a,b} (<=5/6); every public search entry point is called under catch_unwind at every char-boundary offset and every reported span is validated; for VM patterns the iterators, split and replace are also driven under backtrack_limit(1), pulling on after Err items. Non-trivial = VM-compiled pattern, multi-byte text, at least one match reported. Distinct = distinct (pattern, text, offset).".into();
    o.assumptions = vec!["validity predicate only (no reference): runtime Err values are acceptable outcomes".into()];
    o.required_classes = vec!["engine:VM/0-delegates".into(), "feature:reference-to-open-group".into(), "feature:nullable-unbounded-loop".into(), "feature:cond".into(), "outcome:match".into()];
    let (enumerated, prods) = wild_spaces(ctx);
    let texts = wild_texts(ctx.quick());
    if !stage(ctx, &mut o, &p, "unrestricted leaves, enumerated", &enumerated, &texts) {
        return o;
    }
    o.exhaustive = Some(format!("all trees with <= {} nodes over the unrestricted leaf set (references to open groups allowed) x {} texts x all offsets", if ctx.quick() { 4 } else { 5 }, texts.len()));
    let ptexts: Vec<String> = texts.iter().filter(|t| t.chars().count() <= 2 || t.is_ascii()).cloned().collect();
    if !stage(ctx, &mut o, &p, "context x filler (with conditionals) depth 2", &prods, &ptexts) {
        return o;
    }
    let cases = if ctx.quick() { 120_000 } else { 3_000_000 };
    let rtexts: Vec<String> = {
        let mut t = gen::texts(&gen::MB, 2);
        t.extend(["aaaaaa", "aéaé€", "😀a😀", "ab\nab", "aaab", "abab"].iter().map(|s| s.to_string()));
        t
    };
    stage_random(ctx, &mut o, &p, "random unrestricted", &RandCfg::wild(), &rtexts, cases, &|_| true);
    if !stage(ctx, &mut o, &p, "repeats with lower bound above upper bound (rejected, or sane)", &gen::inverted_repeat_patterns(), &gen::texts(&['a', 'b'], 4)) {
        return o;
    }
    if o.violations.is_empty() {
        // wide patterns: 8..37 groups, save slots beyond 64
        let wcases = if ctx.quick() { 20_000 } else { 300_000 };
        let wtexts = gen::wide_texts();
        let (st, found) = explore_random_with(ctx, &p, "wide patterns", &wtexts, wcases, &|bytes| Some(gen::decode_wide(bytes)));
        o.generators.push(serde_json::json!({"mode": "random(proptest bytes -> 8..37 groups in a row, wrapped, with a tail reading one group back)", "name": "wide patterns", "cases": wcases, "texts": wtexts.len(), "evaluations": st.evaluations, "seed": ctx.seed}));
        let v = found.map(|f| finish(ctx, &p, f));
        o.absorb(st, v);
    }
    if !ctx.quick() && o.violations.is_empty() {
        fuzz_stage(ctx, &mut o, &p, "fuzz_search", crate::fuzzdec::run_search);
    }
    o
}

/// coverage-guided campaign of a byte-decoded target; artifacts are re-checked in-process and shrunk
pub fn fuzz_stage<P: PatProp>(ctx: &RunCtx, o: &mut Outcome, p: &P, target: &str, recheck: fn(&[u8]) -> Option<Found>) {
    let seeds = crate::fuzzrun::byte_seeds(ctx, 64, 48);
    match crate::fuzzrun::campaign(ctx, target, 16, if target == "fuzz_search" { 12_000 } else { 40_000 }, 96, &seeds) {
        Ok(c) => {
            o.stats.evaluations += c.runs_done;
            o.extra.insert("fuzz".into(), c.evidence);
            for a in c.artifacts {
                let data = std::fs::read(&a).unwrap_or_default();
                match recheck(&data) {
                    Some(found) => {
                        o.violations.push(finish(ctx, p, found));
                        return;
                    }
                    None => {
                        o.infra_error = Some(format!("libFuzzer artifact {} is not reproduced by the in-process oracle (harness trouble or sanitizer-only report): inconclusive", a.display()));
                    }
                }
            }
        }
        Err(e) => o.infra_error = Some(e),
    }
}

/// coverage-guided campaign of the generic target `fuzz_prop` with the oracle of property `name` inside the
/// target; artifacts are re-checked in-process (a pattern-level failure is shrunk like any other)
pub fn fuzz_prop_stage<P: PatProp>(ctx: &RunCtx, o: &mut Outcome, p: Option<&P>, name: &str, runs: u64) {
    if !o.violations.is_empty() || o.infra_error.is_some() {
        return;
    }
    let seeds = crate::fuzzrun::byte_seeds(ctx, 64, 48);
    match crate::fuzzrun::campaign_env(ctx, "fuzz_prop", Some(name), 16, runs, 96, &seeds) {
        Ok(c) => {
            o.stats.evaluations += c.runs_done;
            // memory use is not this property's subject (C06 judges it for compilation): only crash artifacts - the
            // target panics when its oracle fails - are re-checked; oom / leak reports of the sanitizer runtime are counted
            let (crashes, other): (Vec<_>, Vec<_>) = c.artifacts.into_iter().partition(|a| a.file_name().and_then(|n| n.to_str()).map_or(false, |n| n.starts_with("crash-")));
            let mut ev = c.evidence;
            ev["oom_or_leak_reports_ignored"] = serde_json::json!(other.len());
            o.extra.insert(format!("fuzz:{}", name), ev);
            for a in crashes {
                let data = std::fs::read(&a).unwrap_or_default();
                let hit = match p {
                    Some(p) => crate::fuzzdec::prop_found(name, &data).map(|found| finish(ctx, p, found)),
                    None => crate::fuzzdec::prop_violation(name, &data).map(|(case, fail)| Violation { case, fail }),
                };
                match hit {
                    Some(v) => {
                        o.violations.push(v);
                        return;
                    }
                    None => {
                        o.infra_error = Some(format!("libFuzzer artifact {} is not reproduced by the in-process oracle (harness trouble or sanitizer-only report): inconclusive", a.display()));
                    }
                }
            }
        }
        Err(e) => o.infra_error = Some(e),
    }
}

// ---------------------------------------------------------------------------------------------
// C09

pub struct Coherence;

fn caps_iter_spans(re: &Regex, t: &str, max: usize) -> Out<(Vec<(usize, usize)>, Option<String>)> {
    match catch_unwind(AssertUnwindSafe(|| {
        let mut v = vec![];
        let mut err = None;
        for c in re.captures_iter(t) {
            match c {
                Ok(c) => {
                    let m = c.get(0).expect("group 0");
                    v.push((m.start(), m.end()))
                }
                Err(e) => {
                    err = Some(engine::err_kind(&e));
                    break;
                }
            }
            if v.len() > max {
                break;
            }
        }
        (v, err)
    })) {
        Ok(v) => Out::Val(v),
        Err(e) => Out::Panic(engine::panic_msg(e)),
    }
}

pub struct CP {
    re: Regex,
    special: bool,
    /// the same pattern under backtrack_limit(2): the entry points must also agree on errors
    limited: Option<Regex>,
}

impl PatProp for Coherence {
    type P = CP;
    fn prepare(&self, _ctx: &RunCtx, n: &Node, pat: &str, st: &mut Stats) -> Prep<CP> {
        let re = match build_or_skip(pat) {
            Ok(r) => r,
            Err(p) => return conv(p),
        };
        st.class(vm_class(pat, engine::is_vm(&re)));
        let special = n.any(|x| matches!(x, KeepOut | ContG));
        if special {
            st.class("feature:\\K-or-\\G");
        }
        let limited = if engine::is_vm(&re) {
            match engine::build_with(pat, |b| {
                b.backtrack_limit(2);
            }) {
                Built::Ok(r) => Some(r),
                _ => None,
            }
        } else {
            None
        };
        Prep::Ready(CP { re, special, limited })
    }

    fn eval(&self, _ctx: &RunCtx, p: &CP, _n: &Node, t: &str, pos: usize) -> Verdict {
        let re = &p.re;
        let f = engine::find_from_pos(re, t, pos);
        let c = engine::captures_from_pos(re, t, pos);
        let c0: Out<refm::Span> = match &c {
            Out::Val(Some(v)) => Out::Val(v[0]),
            Out::Val(None) => Out::Val(None),
            Out::Err(e) => Out::Err(e.clone()),
            Out::Panic(p) => Out::Panic(p.clone()),
        };
        if matches!(f, Out::Panic(_)) || matches!(c0, Out::Panic(_)) {
            return Verdict::Skip("panic (judged by C05)");
        }
        if f != c0 {
            return Verdict::Fail(Fail::new("find-vs-captures", format!("find_from_pos = {}", f.show()), format!("captures_from_pos.get(0) = {}", c0.show())));
        }
        let mut empty_in_iter = false;
        if let Some(lre) = &p.limited {
            // under a tiny backtrack limit the entry points run the same search: same answer or same error
            let lf = engine::find_from_pos(lre, t, pos);
            let lc = engine::captures_from_pos(lre, t, pos);
            let lc0: Out<refm::Span> = match &lc {
                Out::Val(v) => Out::Val(v.as_ref().and_then(|v| v[0])),
                Out::Err(e) => Out::Err(e.clone()),
                Out::Panic(x) => Out::Panic(x.clone()),
            };
            if !matches!(lf, Out::Panic(_)) && !matches!(lc0, Out::Panic(_)) && lf != lc0 {
                return Verdict::Fail(Fail::new("find-vs-captures", format!("backtrack_limit(2): find_from_pos = {}", lf.show()), format!("captures_from_pos.get(0) = {}", lc0.show())));
            }
            if pos == 0 {
                let lim = guard(|| lre.is_match(t));
                let want = match &lf {
                    Out::Val(v) => Out::Val(v.is_some()),
                    Out::Err(e) => Out::Err(e.clone()),
                    Out::Panic(x) => Out::Panic(x.clone()),
                };
                if !matches!(lf, Out::Panic(_)) && lim != want {
                    return Verdict::Fail(Fail::new("is_match-vs-find", format!("backtrack_limit(2): find = {}", lf.show()), format!("is_match = {}", lim.show())));
                }
                // whole histories, pulled on after Err items
                let bound = t.len() + 4;
                let hist = catch_unwind(AssertUnwindSafe(|| {
                    let f: Vec<String> = lre.find_iter(t).take(bound).map(|m| match m {
                        Ok(m) => format!("({},{})", m.start(), m.end()),
                        Err(e) => format!("Err({})", engine::err_kind(&e)),
                    }).collect();
                    let c: Vec<String> = lre.captures_iter(t).take(bound).map(|c| match c {
                        Ok(c) => c.get(0).map_or("None".to_string(), |m| format!("({},{})", m.start(), m.end())),
                        Err(e) => format!("Err({})", engine::err_kind(&e)),
                    }).collect();
                    (f, c)
                }));
                if let Ok((f, c)) = hist {
                    if f != c {
                        return Verdict::Fail(Fail::new("find_iter-vs-captures_iter", format!("backtrack_limit(2): find_iter = {:?}", f), format!("captures_iter = {:?}", c)));
                    }
                }
            }
        }
        if pos == 0 {
            let im = guard(|| re.is_match(t));
            let want = match &f {
                Out::Val(v) => Out::Val(v.is_some()),
                Out::Err(e) => Out::Err(e.clone()),
                Out::Panic(p) => Out::Panic(p.clone()),
            };
            if im != want {
                return Verdict::Fail(Fail::new("is_match-vs-find", format!("find = {}", f.show()), format!("is_match = {}", im.show())));
            }
            let f0 = guard(|| re.find(t).map(|o| o.map(|m| (m.start(), m.end()))));
            if f0 != f {
                return Verdict::Fail(Fail::new("find-vs-find_from_pos", f.show(), f0.show()));
            }
            let cc = guard(|| re.captures(t).map(|o| o.map(|c| c.get(0).map(|m| (m.start(), m.end())))));
            let ccf: Out<refm::Span> = match cc {
                Out::Val(v) => Out::Val(v.flatten()),
                Out::Err(e) => Out::Err(e),
                Out::Panic(p) => Out::Panic(p),
            };
            if ccf != f {
                return Verdict::Fail(Fail::new("captures-vs-find", f.show(), ccf.show()));
            }
            let fi = engine::find_iter_spans(re, t, t.len() + 3);
            let ci = caps_iter_spans(re, t, t.len() + 3);
            if matches!(fi, Out::Panic(_)) || matches!(ci, Out::Panic(_)) {
                return Verdict::Skip("panic (judged by C05)");
            }
            if fi != ci {
                return Verdict::Fail(Fail::new("find_iter-vs-captures_iter", format!("find_iter = {}", fi.show()), format!("captures_iter = {}", ci.show())));
            }
            if let Out::Val((v, _)) = &fi {
                empty_in_iter = v.iter().any(|(a, b)| a == b);
            }
        }
        Verdict::Pass { nontrivial: p.special || empty_in_iter, class: if empty_in_iter { Some("iteration:has-empty-match") } else { None } }
    }
}

pub fn run_c09(ctx: &RunCtx) -> Outcome {
    let p = Coherence;
    let mut o = Outcome::default();
    o.rule = "unrestricted grammar as C05; for every (pattern, text, offset): find_from_pos == captures_from_pos.get(0) (same Err kind if any); at offset 0 also is_match <=> find.is_some(), find == find_from_pos(0), captures.get(0) == find, and the span sequence of captures_iter == that of find_iter including the position and kind of an Err; for VM patterns the same comparisons are repeated under backtrack_limit(2), where searches end in errors. Non-trivial = pattern uses \\G or \\K, or the iteration contains an empty match. Distinct = distinct (pattern, text, offset).".into();
    o.assumptions = vec!["metamorphic: no external oracle, the entry points are compared with each other".into()];
    o.required_classes = vec!["feature:\\K-or-\\G".into(), "iteration:has-empty-match".into()];
    let (enumerated, prods) = wild_spaces(ctx);
    let texts = wild_texts(ctx.quick());
    if !stage(ctx, &mut o, &p, "unrestricted leaves, enumerated", &enumerated, &texts) {
        return o;
    }
    o.exhaustive = Some(format!("all trees with <= {} nodes over the unrestricted leaf set x {} texts x all offsets", if ctx.quick() { 4 } else { 5 }, texts.len()));
    // \G-focused products: \G in front of / inside every filler and context
    let gpats: Vec<Node> = {
        let base = product_space(false, 1);
        let mut v = vec![];
        for b in base {
            v.push(Concat(vec![ContG, b.clone()]));
            v.push(Alt(vec![Concat(vec![ContG, Lit('a')]), b.clone()]));
            v.push(Concat(vec![b, ContG]));
        }
        gen::dedup_by_print(v.into_iter().map(flatten).collect())
    };
    let dtexts: Vec<String> = ["", "a", "aa", "ab", "12 34", "aab", "aba", "abab", "a\na", "éa", "aaa", "bab", "ba", "b"].iter().map(|s| s.to_string()).chain(gen::texts(&['a', 'b', '1', ' '], 3)).collect();
    if !stage(ctx, &mut o, &p, "\\G x context x filler", &gpats, &dtexts) {
        return o;
    }
    let ptexts: Vec<String> = texts.iter().filter(|t| t.chars().count() <= 2 || t.is_ascii()).cloned().collect();
    if !stage(ctx, &mut o, &p, "context x filler (with conditionals) depth 2", &prods, &ptexts) {
        return o;
    }
    let cases = if ctx.quick() { 150_000 } else { 2_000_000 };
    let rtexts: Vec<String> = {
        let mut t = gen::texts(&['a', 'b', 'é'], 3);
        t.extend(["aaaaaa", "ab\nab", "aaab", "abab", "a a", "ab ab"].iter().map(|s| s.to_string()));
        t
    };
    stage_random(ctx, &mut o, &p, "random unrestricted", &RandCfg::wild(), &rtexts, cases, &|_| true);
    o
}

/// merge nested concatenations created by wrapping
pub fn flatten(n: Node) -> Node {
    match n {
        Concat(v) => {
            let mut out = vec![];
            for c in v {
                match flatten(c) {
                    Concat(inner) => out.extend(inner),
                    Empty => {}
                    x => out.push(x),
                }
            }
            match out.len() {
                0 => Empty,
                1 => out.pop().unwrap(),
                _ => Concat(out),
            }
        }
        other => other,
    }
}

// ---------------------------------------------------------------------------------------------
// C08

pub struct IterModel;

pub struct IP {
    re: Regex,
    prog: refm::Prog,
    vm: bool,
    limited: Vec<(usize, Regex)>,
}

fn iter_space(ctx: &RunCtx) -> Vec<Node> {
    let mut cfg = gen::core_cfg();
    cfg.leaves.push(ContG);
    cfg.leaves.push(Lit('é'));
    let n = if ctx.quick() { 4 } else { 5 };
    if !ctx.quick() {
        cfg.leaves.retain(|l| !matches!(l, Class(..) | Assert(crate::ast::A::StartText)));
    }
    space(&cfg, n, false)
}

impl PatProp for IterModel {
    type P = IP;
    fn all_offsets(&self) -> bool {
        false
    }
    fn prepare(&self, ctx: &RunCtx, n: &Node, pat: &str, st: &mut Stats) -> Prep<IP> {
        if let Some(k) = known_class(ctx, n) {
            return Prep::Excluded(k);
        }
        if n.has_cond() {
            return Prep::Skip("domain:conditional");
        }
        if !n.refs_valid(false) {
            return Prep::Skip("domain:reference-to-unclosed-group");
        }
        let re = match build_or_skip(pat) {
            Ok(r) => r,
            Err(p) => return conv(p),
        };
        let vm = engine::is_vm(&re);
        st.class(vm_class(pat, vm));
        if n.any(|x| matches!(x, ContG)) {
            st.class("feature:\\G");
        }
        if n.any(|x| matches!(x, KeepOut)) {
            st.class("feature:\\K");
        }
        let mut limited = vec![];
        if vm {
            for lim in [0usize, 1, 2] {
                if let Built::Ok(r) = engine::build_with(pat, |b| {
                    b.backtrack_limit(lim);
                }) {
                    limited.push((lim, r));
                }
            }
        }
        Prep::Ready(IP { re, prog: refm::compile(n), vm, limited })
    }

    fn eval(&self, _ctx: &RunCtx, p: &IP, _n: &Node, t: &str, _pos: usize) -> Verdict {
        let bound = t.chars().count() + 2;
        let got = engine::find_iter_spans(&p.re, t, bound + 1);
        let (spans, err) = match &got {
            Out::Val(v) => v.clone(),
            other => return Verdict::Fail(Fail::new("panic", "find_iter returns items", other.show())),
        };
        if spans.len() > bound {
            return Verdict::Fail(Fail::new("nontermination", format!("at most {} items", bound), format!("{:?}...", spans)));
        }
        if let Some(e) = err {
            return Verdict::Fail(Fail::new("runtime-error", "no error on a tiny input with default limits", e));
        }
        // (i) invariants
        let mut prev: Option<(usize, usize)> = None;
        for &(s, e) in &spans {
            if !span_ok(t, s, e) {
                return Verdict::Fail(Fail::new("invalid-span", "valid spans", format!("{:?}", spans)));
            }
            if let Some((ps, pe)) = prev {
                if s < pe {
                    return Verdict::Fail(Fail::new("overlap", "each start >= previous end", format!("{:?}", spans)));
                }
                if (s, e) <= (ps, pe) {
                    return Verdict::Fail(Fail::new("not-increasing", "strictly increasing", format!("{:?}", spans)));
                }
                if s == e && s == pe {
                    return Verdict::Fail(Fail::new("empty-adjacent", "no empty match adjacent to the previous match", format!("{:?}", spans)));
                }
            }
            prev = Some((s, e));
        }
        // (ii) reference iteration model
        let want = match refm::iterate(&p.prog, t, bound + 1) {
            Some(w) => w,
            None => return Verdict::Skip("reference-budget"),
        };
        let wspans: Vec<(usize, usize)> = want.iter().map(|c| c[0].unwrap()).collect();
        if wspans != spans {
            return Verdict::Fail(Fail::new("sequence", format!("{:?}", wspans), format!("{:?}", spans)));
        }
        // (iii) error histories
        let mut err_seen = false;
        for (lim, re) in &p.limited {
            let r = catch_unwind(AssertUnwindSafe(|| {
                let mut it = re.find_iter(t);
                let mut items = vec![];
                let mut after = None;
                let mut k = 0;
                while let Some(x) = it.next() {
                    k += 1;
                    match x {
                        Ok(m) => items.push((m.start(), m.end())),
                        Err(_) => {
                            let rest: Vec<bool> = (0..3).map(|_| it.next().is_none()).collect();
                            after = Some(rest);
                            break;
                        }
                    }
                    if k > bound + 1 {
                        break;
                    }
                }
                (items, after)
            }));
            match r {
                Err(e) => return Verdict::Fail(Fail::new("panic", "items", format!("limit {}: PANIC({})", lim, engine::panic_msg(e)))),
                Ok((items, after)) => {
                    if let Some(rest) = &after {
                        err_seen = true;
                        if !rest.iter().all(|x| *x) {
                            return Verdict::Fail(Fail::new("not-fused-after-error", "None after an Err item", format!("limit {}: next() after Err returned Some", lim)));
                        }
                    }
                    if !spans.starts_with(&items) || (after.is_none() && items != spans) {
                        return Verdict::Fail(Fail::new("limited-prefix", format!("a prefix of {:?} (all of it if no Err)", spans), format!("limit {}: {:?} err={}", lim, items, after.is_some())));
                    }
                }
            }
        }
        let skipped_empty = wspans.iter().any(|(a, b)| a == b);
        let nontrivial = spans.len() >= 2 || skipped_empty || err_seen;
        Verdict::Pass { nontrivial: nontrivial && (p.vm || spans.len() >= 2), class: if err_seen { Some("history:error-then-none") } else if spans.len() >= 2 { Some("history:>=2-items") } else { None } }
    }
}

pub fn iter_texts(quick: bool) -> Vec<String> {
    let mut t = gen::texts(&gen::SIGMA5, 3);
    // stepping over characters of every UTF-8 length after an empty match
    for c in gen::EDGE.iter().chain(['😀', '€'].iter()) {
        for shape in ["#", "#a", "a#", "a#b", "##", "#a#"] {
            t.push(shape.replace('#', &c.to_string()));
        }
    }
    t.extend(gen::texts(&['a', 'b'], if quick { 5 } else { 6 }).into_iter().filter(|s| s.len() > 3));
    t
}

pub fn run_c08(ctx: &RunCtx) -> Outcome {
    let p = IterModel;
    let mut o = Outcome::default();
    o.rule = "C01 pattern space plus \\G and \\K variants (nullable patterns included, F1 class excluded); per text the whole find_iter sequence is checked against invariants (termination, valid spans, start >= previous end, strictly increasing, no empty match adjacent to the previous end) and must equal the reference iteration model (repeated reference search from the previous end, one-character step after an empty match, drop of an adjacent empty match, \\G aware of skipped empty matches); with backtrack_limit 0/1/2 the items before the first Err are a prefix of the unlimited sequence and three further next() calls after an Err give None. Non-trivial = >= 2 items, an empty match in the sequence, or an Err history. Distinct = distinct (pattern, text).".into();
    o.assumptions = vec!["reference matcher + iteration model in refm.rs".into()];
    o.required_classes = vec!["feature:\\G".into(), "feature:\\K".into(), "history:>=2-items".into(), "history:error-then-none".into()];
    let pats = iter_space(ctx);
    let texts = iter_texts(ctx.quick());
    if !stage(ctx, &mut o, &p, "core + \\G + é leaves, enumerated", &pats, &texts) {
        return o;
    }
    o.exhaustive = Some(format!("all valid trees with <= {} nodes over the core leaf set + \\G x {} texts", if ctx.quick() { 4 } else { 5 }, texts.len()));
    let prods = product_space(false, 2);
    if !stage(ctx, &mut o, &p, "context x filler depth 2", &prods, &texts) {
        return o;
    }
    let gpats: Vec<Node> = gen::dedup_by_print(
        product_space(false, 1).into_iter().flat_map(|b| vec![flatten(Concat(vec![ContG, b.clone()])), Alt(vec![flatten(Concat(vec![ContG, Lit('a')])), b])]).collect(),
    );
    if !stage(ctx, &mut o, &p, "\\G x context x filler", &gpats, &texts) {
        return o;
    }
    let cases = if ctx.quick() { 150_000 } else { 2_000_000 };
    let cfg = RandCfg { contg: true, ..RandCfg::core() };
    let rtexts: Vec<String> = {
        let mut t = gen::texts(&['a', 'b', 'é'], 3);
        t.extend(["aaaaaa", "ab\nab", "aaab", "abab", "a-a", "ab-ab", "ababab"].iter().map(|s| s.to_string()));
        t
    };
    stage_random(ctx, &mut o, &p, "random core + \\G", &cfg, &rtexts, cases, &|_| true);
    o
}

// ---------------------------------------------------------------------------------------------
// C10

pub struct SplitModel;

pub struct RP {
    re: Regex,
    vm: bool,
    /// the same pattern built with RegexBuilder::case_insensitive(true) (judged against its own find_iter)
    ci: Option<Regex>,
    /// the same pattern with `^` `$` spelled `\\A` `\\z` (only when no multi-line flag is in play)
    az: Option<Regex>,
}

fn collect_split<'a, I: Iterator<Item = fancy_regex::Result<&'a str>>>(mut it: I, max: usize) -> Result<(Vec<&'a str>, bool), String> {
    let mut v = vec![];
    loop {
        match it.next() {
            None => break,
            Some(Ok(s)) => v.push(s),
            Some(Err(e)) => return Err(engine::err_kind(&e)),
        }
        if v.len() > max {
            return Err("nontermination".into());
        }
    }
    // fused: further calls keep returning None
    let fused = it.next().is_none() && it.next().is_none();
    Ok((v, fused))
}

impl PatProp for SplitModel {
    type P = RP;
    fn all_offsets(&self) -> bool {
        false
    }
    fn prepare(&self, _ctx: &RunCtx, n: &Node, pat: &str, st: &mut Stats) -> Prep<RP> {
        if n.has_cond() {
            return Prep::Skip("domain:conditional");
        }
        let re = match build_or_skip(pat) {
            Ok(r) => r,
            Err(p) => return conv(p),
        };
        let vm = engine::is_vm(&re);
        st.class(vm_class(pat, vm));
        let ci = match engine::build_with(pat, |b| {
            b.case_insensitive(true);
        }) {
            Built::Ok(r) => Some(r),
            _ => None,
        };
        let az = if n.any(|x| matches!(x, Assert(crate::ast::A::StartText | crate::ast::A::EndText))) && !n.any(|x| matches!(x, Flags(..) | SetFlags(..))) {
            match engine::build(&n.to_pattern_with(&PrintOpts { anchors_az: true, ..Default::default() })) {
                Built::Ok(r) => Some(r),
                _ => None,
            }
        } else {
            None
        };
        Prep::Ready(RP { re, vm, ci, az })
    }

    fn eval(&self, ctx: &RunCtx, p: &RP, n: &Node, t: &str, pos: usize) -> Verdict {
        // the variants first: each is judged against its own find_iter
        for (name, v) in [("case_insensitive(true)", &p.ci), ("\\A \\z spelling", &p.az)] {
            if let Some(re) = v {
                if let Verdict::Fail(f) = self.eval_one(ctx, &RP { re: re.clone(), vm: p.vm, ci: None, az: None }, n, t, pos) {
                    return Verdict::Fail(Fail { actual: format!("[{}] {}", name, f.actual), ..f });
                }
            }
        }
        self.eval_one(ctx, p, n, t, pos)
    }
}

impl SplitModel {
    fn eval_one(&self, _ctx: &RunCtx, p: &RP, _n: &Node, t: &str, _pos: usize) -> Verdict {
        let bound = t.chars().count() + 3;
        let ms = match engine::find_iter_spans(&p.re, t, bound) {
            Out::Val((v, None)) if v.len() <= bound => v,
            Out::Val(_) => return Verdict::Skip("find_iter error or unbounded (judged by C08)"),
            _ => return Verdict::Skip("find_iter panic (judged by C05)"),
        };
        if ms.iter().any(|(s, e)| !span_ok(t, *s, *e)) || ms.windows(2).any(|w| w[1].0 < w[0].1) {
            return Verdict::Skip("find_iter invalid (judged by C08)");
        }
        // model: pieces between consecutive matches
        let mut model: Vec<&str> = vec![];
        let mut last = 0;
        for (s, e) in &ms {
            model.push(&t[last..*s]);
            last = *e;
        }
        model.push(&t[last..]);
        let r = catch_unwind(AssertUnwindSafe(|| -> Result<(), Fail> {
            let (pieces, fused) = collect_split(p.re.split(t), bound + 2).map_err(|e| Fail::new("split-error", "pieces", e))?;
            if pieces != model {
                return Err(Fail::new("split-pieces", format!("{:?} (matches {:?})", model, ms), format!("{:?}", pieces)));
            }
            if !fused {
                return Err(Fail::new("split-not-fused", "None forever after the end", "Some after None"));
            }
            // interleaving pieces and matches rebuilds the input
            let mut rebuilt = String::new();
            for (i, piece) in pieces.iter().enumerate() {
                rebuilt.push_str(piece);
                if let Some((s, e)) = ms.get(i) {
                    rebuilt.push_str(&t[*s..*e]);
                }
            }
            if rebuilt != t {
                return Err(Fail::new("split-rebuild", format!("{:?}", t), format!("{:?}", rebuilt)));
            }
            for n in 0..=5usize {
                let (got, fused) = collect_split(p.re.splitn(t, n), bound + 2).map_err(|e| Fail::new("splitn-error", "pieces", e))?;
                let want: Vec<&str> = if n == 0 {
                    vec![]
                } else if n > model.len() {
                    model.clone()
                } else {
                    // first n-1 pieces of split, then the untouched remainder
                    let mut w: Vec<&str> = model[..n - 1].to_vec();
                    let rest_start = if n == 1 { 0 } else { ms[n - 2].1 };
                    w.push(&t[rest_start..]);
                    w
                };
                if got != want {
                    return Err(Fail::new("splitn-pieces", format!("n={} {:?} (matches {:?})", n, want, ms), format!("{:?}", got)));
                }
                if !fused {
                    return Err(Fail::new("splitn-not-fused", "None forever after the end", format!("n={} Some after None", n)));
                }
            }
            Ok(())
        }));
        match r {
            Err(e) => Verdict::Fail(Fail::new("panic", "pieces", format!("PANIC({})", engine::panic_msg(e)))),
            Ok(Err(f)) => Verdict::Fail(f),
            Ok(Ok(())) => {
                let nontrivial = !ms.is_empty() && (model.iter().any(|s| s.is_empty()) || ms.iter().any(|(s, e)| multibyte(&t[*s..*e])) || ms.len() + 1 > 2);
                Verdict::Pass { nontrivial: nontrivial && (p.vm || ms.len() >= 2), class: if ms.is_empty() { Some("matches:0") } else if ms.len() == 1 { Some("matches:1") } else { Some("matches:>=2") } }
            }
        }
    }
}

pub fn run_c10(ctx: &RunCtx) -> Outcome {
    let p = SplitModel;
    let mut o = Outcome::default();
    o.rule = "C01 pattern space (+\\G, nullable patterns and the F1 class included: the oracle is the crate's own find_iter, not the reference); per text: split == slices between consecutive find_iter matches (#pieces = #matches + 1), interleaving pieces and matches rebuilds the input byte for byte, splitn(t,n) for n in 0..=5 yields min(n,pieces) items (first n-1 as split, last the untouched remainder, nothing for n=0), both iterators are fused; the same for the pattern built with RegexBuilder::case_insensitive(true) and for its \\A / \\z spelling, each against its own find_iter. Non-trivial = >= 1 match and (an empty piece, a multi-byte separator or >= 2 matches). Distinct = distinct (pattern, text).".into();
    o.assumptions = vec!["find_iter itself is judged by C08; texts on which it errs or is invalid are skipped here".into()];
    o.required_classes = vec!["matches:>=2".into(), "matches:1".into(), "engine:VM/0-delegates".into()];
    let pats = iter_space(ctx);
    let mut texts = iter_texts(ctx.quick());
    // other-case occurrences for the case_insensitive(true) variant
    texts.extend(["aA", "Aa", "AB", "aBAb", "AB-ab", "bA", "ÉaA"].iter().map(|s| s.to_string()));
    if !stage(ctx, &mut o, &p, "core + \\G + é leaves, enumerated", &pats, &texts) {
        return o;
    }
    o.exhaustive = Some(format!("all valid trees with <= {} nodes over the core leaf set + \\G x {} texts x limits 0..=5", if ctx.quick() { 4 } else { 5 }, texts.len()));
    let prods = product_space(false, 2);
    if !stage(ctx, &mut o, &p, "context x filler depth 2", &prods, &texts) {
        return o;
    }
    let cases = if ctx.quick() { 100_000 } else { 1_500_000 };
    let cfg = RandCfg { contg: true, ..RandCfg::core() };
    let rtexts: Vec<String> = {
        let mut t = gen::texts(&['a', 'b', 'é'], 3);
        t.extend(["aaaaaa", "ab\nab", "aaab", "abab", "a-a", "ab-ab", "ababab", "é-é-é"].iter().map(|s| s.to_string()));
        t
    };
    stage_random(ctx, &mut o, &p, "random core + \\G", &cfg, &rtexts, cases, &|_| true);
    o
}

// ---------------------------------------------------------------------------------------------
// C11

pub struct ReplaceModel;

pub struct XP {
    re: Regex,
    vm: bool,
    limited: Option<Regex>,
}

struct CapGroups<'a> {
    c: &'a [refm::Span],
    t: &'a str,
}
impl model::Groups for CapGroups<'_> {
    fn by_index(&self, i: usize) -> Option<&str> {
        self.c.get(i).copied().flatten().map(|(a, b)| &self.t[a..b])
    }
    fn by_name(&self, _name: &str) -> Option<&str> {
        None
    }
    fn has_name(&self, _name: &str) -> bool {
        false
    }
    fn n_groups(&self) -> usize {
        self.c.len()
    }
}

impl PatProp for ReplaceModel {
    type P = XP;
    fn all_offsets(&self) -> bool {
        false
    }
    fn prepare(&self, _ctx: &RunCtx, n: &Node, pat: &str, st: &mut Stats) -> Prep<XP> {
        if n.has_cond() {
            return Prep::Skip("domain:conditional");
        }
        let re = match build_or_skip(pat) {
            Ok(r) => r,
            Err(p) => return conv(p),
        };
        let vm = engine::is_vm(&re);
        st.class(vm_class(pat, vm));
        let limited = if vm {
            match engine::build_with(pat, |b| {
                b.backtrack_limit(1);
            }) {
                Built::Ok(r) => Some(r),
                _ => None,
            }
        } else {
            None
        };
        Prep::Ready(XP { re, vm, limited })
    }

    fn eval(&self, _ctx: &RunCtx, p: &XP, _n: &Node, t: &str, _pos: usize) -> Verdict {
        let bound = t.chars().count() + 3;
        let re = &p.re;
        // the captures of every match (the property is stated relative to find_iter / captures_iter)
        let caps: Vec<Vec<refm::Span>> = match catch_unwind(AssertUnwindSafe(|| {
            let mut v = vec![];
            for c in re.captures_iter(t) {
                match c {
                    Ok(c) => v.push(engine::caps_vec(&c)),
                    Err(_) => return None,
                }
                if v.len() > bound {
                    return None;
                }
            }
            Some(v)
        })) {
            Ok(Some(v)) => v,
            _ => return Verdict::Skip("captures_iter error/panic/unbounded (judged by C05/C08/C09)"),
        };
        let fi = match engine::find_iter_spans(re, t, bound) {
            Out::Val((v, None)) => v,
            _ => return Verdict::Skip("find_iter error/panic (judged by C05/C08)"),
        };
        let cspans: Vec<(usize, usize)> = caps.iter().map(|c| c[0].unwrap()).collect();
        // the property is stated in terms of the find_iter matches; when captures_iter disagrees
        // (C09) the group-free replacers are still checked against the find_iter model
        let agree = fi == cspans;
        let caps: Vec<Vec<refm::Span>> = if agree { caps } else { fi.iter().map(|s| vec![Some(*s)]).collect() };
        if fi.iter().any(|(s, e)| !span_ok(t, *s, *e)) || fi.windows(2).any(|w| w[1].0 < w[0].1) {
            return Verdict::Skip("find_iter invalid (judged by C08)");
        }
        let model = |limit: usize, rep: &dyn Fn(&[refm::Span]) -> String| -> String {
            let mut out = String::new();
            let mut last = 0;
            for (i, c) in caps.iter().enumerate() {
                if limit > 0 && i >= limit {
                    break;
                }
                let (s, e) = c[0].unwrap();
                out.push_str(&t[last..s]);
                out.push_str(&rep(c));
                last = e;
            }
            out.push_str(&t[last..]);
            out
        };
        let r = catch_unwind(AssertUnwindSafe(|| -> Result<(), Fail> {
            for limit in 0..=3usize {
                let check = |name: &str, got: fancy_regex::Result<Cow<'_, str>>, want: String| -> Result<(), Fail> {
                    let got = got.map_err(|e| Fail::new("replace-error", "Ok", format!("{} limit {}: {}", name, limit, engine::err_kind(&e))))?;
                    if got != want {
                        return Err(Fail::new("replace-result", format!("{} limit {}: {:?}", name, limit, want), format!("{:?}", got)));
                    }
                    let borrowed = matches!(got, Cow::Borrowed(_));
                    if borrowed != caps.is_empty() {
                        return Err(Fail::new("replace-borrow", format!("{} limit {}: Borrowed iff no match (matches: {})", name, limit, caps.len()), format!("borrowed={}", borrowed)));
                    }
                    Ok(())
                };
                // identity closure reproduces the text
                check("identity-closure", re.try_replacen(t, limit, |c: &Captures<'_>| c[0].to_string()), t.to_string())?;
                // constant: fast path (no `$`), NoExpand, closure, String, Cow, by_ref
                let want = model(limit, &|_| "X-".to_string());
                check("const-str", re.try_replacen(t, limit, "X-"), want.clone())?;
                check("const-noexpand", re.try_replacen(t, limit, NoExpand("X-")), want.clone())?;
                check("const-closure", re.try_replacen(t, limit, |_: &Captures<'_>| "X-"), want.clone())?;
                check("const-string", re.try_replacen(t, limit, String::from("X-")), want.clone())?;
                check("const-cow", re.try_replacen(t, limit, Cow::Borrowed("X-")), want.clone())?;
                let mut by_ref_rep = "X-";
                check("const-by_ref", re.try_replacen(t, limit, fancy_regex::Replacer::by_ref(&mut by_ref_rep)), want)?;
                // NoExpand keeps `$` literally
                check("noexpand-dollar", re.try_replacen(t, limit, NoExpand("$0")), model(limit, &|_| "$0".to_string()))?;
                // templates (need the groups of every match)
                if !agree {
                    continue;
                }
                for tpl in ["<$0>", "${1}x$$", "$1x", "[$2|$1]", "$$", "x$$y$", "${", "$é", "<${9223372036854775808}>", "[${9223372036854775809}$18446744073709551615]"] {
                    let want = model(limit, &|c| model::expand(tpl, true, &CapGroups { c, t }));
                    check(tpl, re.try_replacen(t, limit, tpl), want)?;
                }
            }
            // the convenience wrappers
            let w1 = model(1, &|_| "Y".to_string());
            if re.replace(t, "Y") != w1 {
                return Err(Fail::new("replace-result", format!("replace: {:?}", w1), format!("{:?}", re.replace(t, "Y"))));
            }
            let wa = model(0, &|_| "Y".to_string());
            if re.replace_all(t, "Y") != wa {
                return Err(Fail::new("replace-result", format!("replace_all: {:?}", wa), format!("{:?}", re.replace_all(t, "Y"))));
            }
            Ok(())
        }));
        match r {
            Err(e) => return Verdict::Fail(Fail::new("panic", "a result", format!("PANIC({})", engine::panic_msg(e)))),
            Ok(Err(f)) => return Verdict::Fail(f),
            Ok(Ok(())) => {}
        }
        // a search error is returned as Err, never a panic
        let mut err_path = false;
        if let Some(lre) = &p.limited {
            for tpl in ["X", "$0", "<$0>", "[$1]"] {
                match catch_unwind(AssertUnwindSafe(|| lre.try_replacen(t, 0, tpl).map(|c| c.into_owned()))) {
                    Err(e) => return Verdict::Fail(Fail::new("panic", "Ok or Err under backtrack_limit(1)", format!("template {:?}: PANIC({})", tpl, engine::panic_msg(e)))),
                    Ok(Err(_)) => err_path = true,
                    Ok(Ok(s)) => {
                        let want = model(0, &|c| model::expand(tpl, true, &CapGroups { c, t }));
                        if s != want {
                            return Verdict::Fail(Fail::new("replace-limited", format!("Err or {:?}", want), format!("{:?}", s)));
                        }
                    }
                }
            }
        }
        if let Some(lre) = &p.limited {
            // a `$`-free template, NoExpand of it and a closure returning it give identical results - also when a
            // search fails on the way (the literal path and the capture path must report the same error)
            for n in 0..=2usize {
                let show = |r: fancy_regex::Result<Cow<'_, str>>| r.map(|c| c.into_owned()).map_err(|e| engine::err_kind(&e));
                let three = catch_unwind(AssertUnwindSafe(|| (show(lre.try_replacen(t, n, "X-")), show(lre.try_replacen(t, n, NoExpand("X-"))), show(lre.try_replacen(t, n, |_: &Captures<'_>| "X-")))));
                if let Ok((a, b, c)) = three {
                    if a != b || a != c {
                        return Verdict::Fail(Fail::new("replace-limited-paths-differ", format!("backtrack_limit(1), n = {}: template {:?}", n, a), format!("NoExpand {:?} / closure {:?}", b, c)));
                    }
                }
            }
            // same through a closure replacer (the capture-expanding path)
            match catch_unwind(AssertUnwindSafe(|| lre.try_replacen(t, 0, |c: &Captures<'_>| format!("<{}>", &c[0])).map(|c| c.into_owned()))) {
                Err(e) => return Verdict::Fail(Fail::new("panic", "Ok or Err under backtrack_limit(1)", format!("closure: PANIC({})", engine::panic_msg(e)))),
                Ok(Err(_)) => err_path = true,
                Ok(Ok(s)) => {
                    let want = model(0, &|c| format!("<{}>", &t[c[0].unwrap().0..c[0].unwrap().1]));
                    if s != want {
                        return Verdict::Fail(Fail::new("replace-limited", format!("Err or {:?}", want), format!("closure replacer: {:?}", s)));
                    }
                }
            }
        }
        let adjacent = fi.windows(2).any(|w| w[1].0 == w[0].1) || fi.iter().any(|(s, e)| s == e);
        let nontrivial = !fi.is_empty() && (fi.len() > 1 || adjacent);
        Verdict::Pass { nontrivial: nontrivial && (p.vm || fi.len() > 1), class: if err_path { Some("path:search-error-returned") } else if fi.len() > 3 { Some("matches:>limit") } else if fi.is_empty() { Some("matches:0") } else { Some("matches:1..3") } }
    }
}

pub fn run_c11(ctx: &RunCtx) -> Outcome {
    let p = ReplaceModel;
    let mut o = Outcome::default();
    o.rule = "C01 pattern space + \\G variants; per text and limit 0..=3: try_replacen equals the model 'text between the first n captures_iter matches + replacer output for those captures' for replacers {identity closure, constant via &str / NoExpand / closure / String / Cow / by_ref, NoExpand(\"$0\"), templates <$0>, ${1}x$$, $1x, [$2|$1], $$, x$$y$, ${, $é} (template output computed by an independent scanner), Cow::Borrowed iff no match, replace/replace_all wrappers; under backtrack_limit(1) try_replacen returns Err or the same answer, never panics. Non-trivial = >= 1 replacement and (>= 2 matches or an empty/adjacent match). Distinct = distinct (pattern, text).".into();
    o.assumptions = vec!["find_iter / captures_iter are judged by C08 / C09; texts on which they err or disagree are skipped here".into()];
    o.required_classes = vec!["matches:>limit".into(), "matches:1..3".into(), "path:search-error-returned".into()];
    let pats = iter_space(ctx);
    let texts = iter_texts(ctx.quick());
    let texts: Vec<String> = if ctx.quick() { texts.into_iter().filter(|t| t.chars().count() <= 2 || (t.is_ascii() && t.len() <= 4)).collect() } else { texts };
    if !stage(ctx, &mut o, &p, "core + \\G + é leaves, enumerated", &pats, &texts) {
        return o;
    }
    o.exhaustive = Some(format!("all valid trees with <= {} nodes over the core leaf set + \\G x {} texts x limits 0..=3 x 12 replacers", if ctx.quick() { 4 } else { 5 }, texts.len()));
    let prods = product_space(false, if ctx.quick() { 1 } else { 2 });
    if !stage(ctx, &mut o, &p, "context x filler", &prods, &texts) {
        return o;
    }
    let cases = if ctx.quick() { 40_000 } else { 800_000 };
    let cfg = RandCfg { contg: true, ..RandCfg::core() };
    let rtexts: Vec<String> = {
        let mut t = gen::texts(&['a', 'b', 'é'], 2);
        t.extend(["aaaaaa", "ab\nab", "aaab", "abab", "a-a", "ab-ab", "ababab", "é-é-é"].iter().map(|s| s.to_string()));
        t
    };
    stage_random(ctx, &mut o, &p, "random core + \\G", &cfg, &rtexts, cases, &|_| true);
    o
}

// ---------------------------------------------------------------------------------------------
// C16

pub struct Meta {
    /// append `(?=)` so that the pattern is compiled to the VM
    pub force_vm: bool,
}

pub struct MP {
    /// the regex crate's reading of the pattern as written, when it is in the common syntax (spans of the groups)
    rx: Option<regex::Regex>,
    /// for the (?=)-forced form: the same pattern as written (handed to the automata engine when it is plain)
    other: Option<Regex>,
    re: Regex,
    names: Vec<Option<String>>,
    ngroups: usize,
    vm: bool,
}

const NAMES: [&str; 5] = ["x", "77", "y1", "_z", "π"];

fn naming(n: &Node) -> PrintOpts {
    let g = n.n_groups();
    let h = hash64(&n.to_pattern());
    let mut names = vec![];
    let mut used = 0;
    for i in 0..g {
        // about half of the groups get a (unique) name
        if used < NAMES.len() && (h >> i) & 1 == 1 {
            names.push(Some(NAMES[used].to_string()));
            used += 1;
        } else {
            names.push(None);
        }
    }
    PrintOpts { names, name_style: ((h >> 20) & 1) as u8, backref_style: ((h >> 21) % 3) as u8, ..Default::default() }
}

impl Meta {
    fn node(&self, n: &Node) -> Node {
        if self.force_vm {
            flatten(Concat(vec![n.clone(), Look(Box::new(Empty), false, false)]))
        } else {
            n.clone()
        }
    }
}

impl PatProp for Meta {
    type P = MP;
    fn spell(&self, n: &Node) -> String {
        self.node(n).to_pattern_with(&naming(n))
    }
    fn extra(&self) -> serde_json::Value {
        serde_json::json!({"force_vm": self.force_vm})
    }
    fn prepare(&self, _ctx: &RunCtx, n: &Node, pat: &str, st: &mut Stats) -> Prep<MP> {
        let re = match build_or_skip(pat) {
            Ok(r) => r,
            Err(p) => return conv(p),
        };
        let opts = naming(n);
        let ngroups = n.n_groups();
        let vm = engine::is_vm(&re);
        st.class(if vm { "engine:VM" } else { "engine:Wrap" });
        if opts.names.iter().any(|x| x.is_some()) {
            st.class("groups:some-named");
        }
        // static metadata
        let r = catch_unwind(AssertUnwindSafe(|| -> Result<(), Fail> {
            if re.captures_len() != ngroups + 1 {
                return Err(Fail::new("captures_len", format!("{}", ngroups + 1), format!("{}", re.captures_len())));
            }
            let got: Vec<Option<String>> = re.capture_names().map(|o| o.map(|s| s.to_string())).collect();
            let mut want = vec![None];
            want.extend(opts.names.iter().cloned());
            if got != want {
                return Err(Fail::new("capture_names", format!("{:?}", want), format!("{:?}", got)));
            }
            Ok(())
        }));
        match r {
            Err(e) => return Prep::Fail(Fail::new("panic", "metadata", format!("PANIC({})", engine::panic_msg(e)))),
            Ok(Err(f)) => return Prep::Fail(f),
            Ok(Ok(())) => {}
        }
        // (the class of finding F1 behaves differently in the two engines by itself; C03 reports that)
        let other = if self.force_vm && !n.has_f1() { engine::build(&n.to_pattern_with(&naming(n))).ok_regex() } else { None };
        // only the syntax that means the same in both crates (`a?+` is a nested quantifier for the regex crate)
        let fancy = n.any(|y| matches!(y, Look(..) | Atomic(_) | Backref(_) | KeepOut | ContG | CondGroup(..) | CondExpr(..) | GroupExists(_) | Repeat(_, _, _, crate::ast::Q::Poss)));
        let rx = if n.has_f1() || fancy { None } else { regex::Regex::new(&n.to_pattern_with(&naming(n))).ok() };
        Prep::Ready(MP { rx, other, re, names: opts.names, ngroups, vm })
    }

    fn eval(&self, _ctx: &RunCtx, p: &MP, _n: &Node, t: &str, pos: usize) -> Verdict {
        let r = catch_unwind(AssertUnwindSafe(|| -> Result<Option<bool>, Fail> {
            let c = match p.re.captures_from_pos(t, pos) {
                Ok(Some(c)) => c,
                Ok(None) => return Ok(None),
                Err(_) => return Ok(None),
            };
            if c.len() != p.ngroups + 1 {
                return Err(Fail::new("Captures::len", format!("{}", p.ngroups + 1), format!("{}", c.len())));
            }
            let it: Vec<refm::Span> = c.iter().map(|m| m.map(|m| (m.start(), m.end()))).collect();
            let by_get: Vec<refm::Span> = (0..c.len()).map(|i| c.get(i).map(|m| (m.start(), m.end()))).collect();
            if it != by_get {
                return Err(Fail::new("iter-vs-get", format!("{:?}", by_get), format!("{:?}", it)));
            }
            if c.get(0).is_none() {
                return Err(Fail::new("get(0)", "Some", "None"));
            }
            for k in 0..3 {
                if c.get(c.len() + k).is_some() {
                    return Err(Fail::new("get-out-of-range", "None", format!("get({}) is Some", c.len() + k)));
                }
            }
            // indices whose doubled value wraps around
            for i in [usize::MAX, usize::MAX / 2, usize::MAX / 2 + 1, usize::MAX / 2 + 2, (usize::MAX / 2 + 1) | 1 << 62, 1 << 62] {
                if c.get(i).is_some() {
                    return Err(Fail::new("get-out-of-range", "None", format!("get({}) is Some", i)));
                }
            }
            for (i, name) in p.names.iter().enumerate() {
                if let Some(name) = name {
                    let a = c.name(name).map(|m| (m.start(), m.end()));
                    if a != by_get[i + 1] {
                        return Err(Fail::new("name-vs-get", format!("name({:?}) == get({}) == {:?}", name, i + 1, by_get[i + 1]), format!("{:?}", a)));
                    }
                }
            }
            if c.name("nosuchname").is_some() {
                return Err(Fail::new("name-unknown", "None", "Some"));
            }
            // on the common syntax every group has the span the regex crate gives it (a group it forgets - one that can
            // never match - counts as unset)
            if let Some(rx) = &p.rx {
                if let Some(rc) = rx.captures_at(t, pos) {
                    let mut theirs: Vec<refm::Span> = (0..rc.len()).map(|i| rc.get(i).map(|m| (m.start(), m.end()))).collect();
                    while theirs.len() < by_get.len() {
                        theirs.push(None);
                    }
                    if theirs != by_get {
                        return Err(Fail::new("group-spans-vs-regex-crate", format!("{:?}", theirs), format!("{:?}", by_get)));
                    }
                }
            }
            // both engine forms of one pattern report the same groups
            if let Some(o) = &p.other {
                if let Ok(Some(oc)) = o.captures_from_pos(t, pos) {
                    let theirs: Vec<refm::Span> = (0..oc.len()).map(|i| oc.get(i).map(|m| (m.start(), m.end()))).collect();
                    if theirs != by_get {
                        return Err(Fail::new("engine-forms-differ", format!("as written: {:?}", theirs), format!("with (?=) appended: {:?}", by_get)));
                    }
                }
            }
            // the Index impls (by number and by name) give the text of the matched groups
            for (i, g) in by_get.iter().enumerate() {
                if let Some((a, b)) = g {
                    if &c[i] != &t[*a..*b] {
                        return Err(Fail::new("index-by-number", format!("caps[{}] == {:?}", i, &t[*a..*b]), format!("{:?}", &c[i])));
                    }
                }
            }
            for (i, name) in p.names.iter().enumerate() {
                if let (Some(name), Some((a, b))) = (name, by_get[i + 1]) {
                    if &c[name.as_str()] != &t[a..b] {
                        return Err(Fail::new("index-by-name", format!("caps[{:?}] == {:?}", name, &t[a..b]), format!("{:?}", &c[name.as_str()])));
                    }
                }
            }
            // the iterator after it has been advanced: nth / skip / step_by / count / size_hint agree with get(i)
            let len = c.len();
            for a in 0..=len.min(3) {
                for n in 0..3usize {
                    let mut it = c.iter();
                    for _ in 0..a {
                        it.next();
                    }
                    let got = it.nth(n).map(|m| m.map(|m| (m.start(), m.end())));
                    let want = by_get.get(a + n).copied();
                    if got != want {
                        return Err(Fail::new("iter-nth", format!("after {} next() calls nth({}) == get({}) == {:?}", a, n, a + n, want), format!("{:?}", got)));
                    }
                    let rest: Vec<refm::Span> = it.take(len + 2).map(|m| m.map(|m| (m.start(), m.end()))).collect();
                    let want_rest: Vec<refm::Span> = by_get.iter().skip(a + n + 1).copied().collect();
                    if rest != want_rest {
                        return Err(Fail::new("iter-after-nth", format!("{:?}", want_rest), format!("{:?}", rest)));
                    }
                }
                let mut it = c.iter();
                for _ in 0..a {
                    it.next();
                }
                let stepped: Vec<refm::Span> = it.step_by(2).take(len + 2).map(|m| m.map(|m| (m.start(), m.end()))).collect();
                let want_stepped: Vec<refm::Span> = by_get.iter().skip(a).step_by(2).copied().collect();
                if stepped != want_stepped {
                    return Err(Fail::new("iter-step_by", format!("after {} next() calls step_by(2): {:?}", a, want_stepped), format!("{:?}", stepped)));
                }
                let mut it = c.iter();
                for _ in 0..a {
                    it.next();
                }
                let (lo, hi) = it.size_hint();
                let cnt = it.take(len + 2).count();
                if cnt != len - a.min(len) || lo > cnt || hi.map_or(false, |h| h < cnt) {
                    return Err(Fail::new("iter-count", format!("{} items left after {} next() calls", len - a.min(len), a), format!("count {} size_hint ({}, {:?})", cnt, lo, hi)));
                }
            }
            Ok(Some(by_get.iter().skip(1).any(|g| g.is_none())))
        }));
        match r {
            Err(e) => Verdict::Fail(Fail::new("panic", "metadata", format!("PANIC({})", engine::panic_msg(e)))),
            Ok(Err(f)) => Verdict::Fail(f),
            Ok(Ok(None)) => Verdict::Pass { nontrivial: false, class: None },
            Ok(Ok(Some(unmatched))) => {
                let named = p.names.iter().any(|x| x.is_some());
                Verdict::Pass { nontrivial: p.ngroups >= 2 && named && unmatched, class: if p.vm { Some("match:VM") } else { Some("match:Wrap") } }
            }
        }
    }
}

pub fn run_c16(ctx: &RunCtx) -> Outcome {
    let mut o = Outcome::default();
    o.rule = "patterns from the unrestricted space (all with >= 1 group, a quarter of those without any), a hash-chosen subset of groups named (x, y1, _z, π; (?<n>..) or (?P<n>..)), back-references respelled \\k<..> / (?P=..) as required; each pattern in its own form and with (?=) appended (forces the VM); oracle from the AST: captures_len == 1 + #groups, capture_names == [None, names...], and for every match at every offset Captures::len == captures_len, iter() == get(i) for all i, get(0) is Some, get(len+k) is None, name(n) == get(index of n), caps[i] / caps[name] give the group's text, unknown name => None, the pattern as written and its (?=)-forced form report the same spans for every group, and on the common syntax these are the spans the regex crate reports; Captures::iter() advanced by 0..3 next() calls and then asked for nth(0..2), the rest, step_by(2), count and size_hint agrees with get(i). Non-trivial = >= 2 groups, at least one named, at least one unmatched in the match. Distinct = distinct (pattern spelling, text, offset).".into();
    o.assumptions = vec!["group count and names are computed from the harness AST / printer, not from the crate".into()];
    o.required_classes = vec!["engine:VM".into(), "engine:Wrap".into(), "groups:some-named".into(), "match:VM".into(), "match:Wrap".into()];
    let (enumerated, prods) = wild_spaces(ctx);
    let mut grp_cfg = gen::common_cfg();
    grp_cfg.leaves.truncate(6);
    // a group under {0} still counts as a group
    grp_cfg.unary.push(|c| if c.repeatable() { Some(Repeat(Box::new(c), 0, Some(0), crate::ast::Q::Greedy)) } else { None });
    // patterns without any group take part too (Captures::len == 1, nothing but group 0 visible)
    let plain: Vec<Node> = space(&grp_cfg, if ctx.quick() { 4 } else { 5 }, false).into_iter().filter(|n| n.n_groups() >= 1 || n.size() <= 3).collect();
    let enumerated: Vec<Node> = enumerated.into_iter().filter(|n| n.n_groups() >= 1 || n.size() <= 3 || hash64(&n.to_pattern()) % 4 == 0).collect();
    let prods: Vec<Node> = prods.into_iter().filter(|n| n.n_groups() >= 1 || hash64(&n.to_pattern()) % 4 == 0).collect();
    let texts = {
        let mut t = gen::texts(&['a', 'b', 'é'], 3);
        t.extend(["aaaa", "abab", "aabb"].iter().map(|s| s.to_string()));
        t
    };
    for force_vm in [false, true] {
        let p = Meta { force_vm };
        let tag = if force_vm { " +(?=)" } else { "" };
        if !stage(ctx, &mut o, &p, &format!("plain groups{}", tag), &plain, &texts) {
            return o;
        }
        if !stage(ctx, &mut o, &p, &format!("unrestricted leaves, enumerated{}", tag), &enumerated, &texts) {
            return o;
        }
        if !stage(ctx, &mut o, &p, &format!("context x filler (with conditionals){}", tag), &prods, &texts) {
            return o;
        }
        let cases = if ctx.quick() { 60_000 } else { 1_000_000 };
        if !stage_random(ctx, &mut o, &p, &format!("random unrestricted{}", tag), &RandCfg::wild(), &texts, cases, &|n| n.n_groups() >= 1 || hash64(&n.to_pattern()) % 4 == 0) {
            return o;
        }
    }
    o.exhaustive = Some("all trees with <= 4 (quick) / 5 (thorough) nodes over the plain-group and unrestricted leaf sets having >= 1 group, each in two engine forms".into());
    o
}
