//! C13: the static size facts are sound (no sub-expression matches fewer characters than its
//! computed minimum, nor different lengths when judged constant-size); look-behinds need constant
//! size and then inspect exactly that text (characters, not bytes; no reading before the start).
use super::c01::{stage, stage_random};
use super::diffref::{known_class, DiffRef};
use super::{product_space, space};
use crate::ast::{Node, Node::*, Q};
use crate::conv;
use crate::core::*;
use crate::engine::{self, Built};
use crate::gen::{self, RandCfg};
use crate::refm::{self, RefResult, SearchOpts};
use fancy_regex::verif_hooks::{analysis, Facts};
use std::cell::RefCell;

pub struct SizeFacts;

pub struct FP {
    prog: refm::Prog,
    /// preorder list of (min_size, const_size, kind, expr)
    facts: Vec<(usize, bool, &'static str, String)>,
    obs: RefCell<Vec<u64>>,
    compiled: bool,
}

fn flatten_facts(f: &Facts, out: &mut Vec<(usize, bool, &'static str, String)>) {
    out.push((f.min_size, f.const_size, f.kind, f.expr.clone()));
    for c in &f.children {
        flatten_facts(c, out);
    }
}

fn shape(n: &Node, out: &mut Vec<usize>) {
    out.push(n.children().len());
    for c in n.children() {
        shape(c, out);
    }
}
fn fshape(f: &Facts, out: &mut Vec<usize>) {
    out.push(f.children.len());
    for c in &f.children {
        fshape(c, out);
    }
}

impl PatProp for SizeFacts {
    type P = FP;
    fn prepare(&self, ctx: &RunCtx, n: &Node, pat: &str, st: &mut Stats) -> Prep<FP> {
        // the reference semantics of the excluded classes differ from the engine, but size facts are
        // about what a sub-expression can match at all, so only the F1 class (where "what matches"
        // itself is disputed) is left out
        if n.has_f1() && ctx.active("unbounded_repeat_nullable_body") {
            return Prep::Excluded("F1:unbounded_repeat_nullable_body");
        }
        let facts = match std::panic::catch_unwind(|| analysis(pat, true)) {
            Ok(Ok(f)) => f,
            Ok(Err(_)) => return Prep::Skip("analysis:error"),
            Err(e) => return Prep::Fail(Fail::new("analysis-panic", "facts", engine::panic_msg(e))),
        };
        let tree = match conv::parse(pat) {
            Ok(t) => t,
            Err(_) => return Prep::Skip("conversion:unsupported"),
        };
        let (mut a, mut b) = (vec![], vec![]);
        shape(&tree, &mut a);
        fshape(&facts, &mut b);
        if a != b {
            return Prep::Skip("HARNESS:alignment-mismatch");
        }
        // does some look-behind have a body (or, for a top-level alternation, an alternative) that the
        // analysis does not judge constant-size? then - and only then - the build must fail with LookBehindNotConst
        fn must_fail(n: &Node, f: &Facts) -> bool {
            let here = match n {
                Look(_, true, _) => {
                    let body = &f.children[0];
                    !(body.const_size || (body.kind == "Alt" && body.children.iter().all(|a| a.const_size)))
                }
                _ => false,
            };
            here || n.children().iter().zip(&f.children).any(|(c, cf)| must_fail(c, cf))
        }
        let expect_lb_error = must_fail(&tree, &facts);
        let built = engine::build(pat);
        let got_lb_error = matches!(&built, Built::Err(e) if engine::err_kind(e) == "LookBehindNotConst");
        if expect_lb_error && matches!(built, Built::Ok(_)) {
            return Prep::Fail(Fail::new("lookbehind-not-rejected", "CompileError::LookBehindNotConst (a look-behind body is not judged constant-size)", "the pattern compiles"));
        }
        if got_lb_error && !expect_lb_error {
            return Prep::Fail(Fail::new("lookbehind-wrongly-rejected", "no LookBehindNotConst error: every look-behind alternative is judged constant-size", "Err(LookBehindNotConst)"));
        }
        // independent of the analysis: when the syntax alone fixes the length of every look-behind body (of each
        // top-level alternative), the pattern must not be refused as "not constant"
        if got_lb_error {
            fn all_fixed(n: &Node) -> bool {
                let here = match n {
                    Look(b, true, _) => match &**b {
                        Alt(v) => v.iter().all(|a| a.fixed_char_len().is_some()),
                        other => other.fixed_char_len().is_some(),
                    },
                    _ => true,
                };
                here && n.children().iter().all(|c| all_fixed(c))
            }
            if all_fixed(&tree) {
                return Prep::Fail(Fail::new("lookbehind-wrongly-rejected", "the pattern compiles: every look-behind alternative has a fixed length in characters by its syntax alone", "Err(LookBehindNotConst)"));
            }
        }
        let compiled = match built {
            Built::Ok(_) => true,
            Built::Err(e) => {
                st.class(if engine::err_kind(&e) == "LookBehindNotConst" { "build:LookBehindNotConst" } else { "build:other-error" });
                false
            }
            Built::Panic(p) => return Prep::Fail(Fail::new("compile-panic", "Ok or Err", p)),
        };
        if compiled {
            st.class("build:ok");
        }
        let mut flat = vec![];
        flatten_facts(&facts, &mut flat);
        let prog = refm::compile(&tree);
        let nn = prog.nnodes;
        if n.any(|x| matches!(x, Look(_, true, _))) {
            st.class("feature:look-behind");
        }
        Prep::Ready(FP { prog, facts: flat, obs: RefCell::new(vec![0; nn]), compiled })
    }

    fn eval(&self, _ctx: &RunCtx, p: &FP, _n: &Node, t: &str, pos: usize) -> Verdict {
        let mut obs = p.obs.borrow_mut();
        let before: u64 = obs.iter().map(|x| x.count_ones() as u64).sum();
        let (r, _) = refm::search_with(&p.prog, t, pos, SearchOpts { obs: Some(&mut *obs), budget: 400_000, ..SearchOpts::default() });
        if r == RefResult::Budget {
            return Verdict::Skip("reference-budget");
        }
        let mut consumer = false;
        for (i, bits) in obs.iter().enumerate() {
            if *bits == 0 {
                continue;
            }
            let (min_size, const_size, kind, expr) = &p.facts[i];
            let min_obs = bits.trailing_zeros() as usize;
            if min_obs < *min_size {
                return Verdict::Fail(Fail::new("min_size-unsound", format!("node {} ({} {}) matches at least {} characters", i, kind, expr, min_size), format!("the reference matched it with {} characters", min_obs)));
            }
            if *const_size && bits.count_ones() > 1 {
                let lens: Vec<u32> = (0..64).filter(|b| bits >> b & 1 == 1).collect();
                return Verdict::Fail(Fail::new("const_size-unsound", format!("node {} ({} {}) always matches the same number of characters", i, kind, expr), format!("the reference matched it with lengths {:?}", lens)));
            }
            if *min_size > 0 || (*const_size && *kind != "Empty" && *kind != "Assertion") {
                consumer = true;
            }
        }
        let after: u64 = obs.iter().map(|x| x.count_ones() as u64).sum();
        // non-trivial: this case contributed a new (node, length) observation for a node with real facts
        Verdict::Pass { nontrivial: after > before && consumer, class: if p.compiled { Some("observed:compiled-pattern") } else { Some("observed:rejected-pattern") } }
    }
}

pub fn lookbehind_products() -> Vec<Node> {
    fn bx(n: Node) -> Box<Node> {
        Box::new(n)
    }
    let bodies: Vec<Node> = vec![
        Lit('a'),
        Lit('é'),
        Lit('€'),
        Any,
        Concat(vec![Lit('a'), Lit('é')]),
        Concat(vec![Any, Any]),
        Alt(vec![Lit('a'), Lit('é')]),
        Alt(vec![Lit('a'), Concat(vec![Lit('é'), Lit('b')])]),
        Alt(vec![Concat(vec![Lit('a'), Lit('b')]), Lit('é')]),
        Alt(vec![Concat(vec![Lit('a'), Lit('b')]), Lit('c'), Lit('d')]),
        Alt(vec![Lit('a'), Alt(vec![Lit('b'), Concat(vec![Lit('c'), Lit('c')])])]),
        Repeat(bx(Lit('a')), 2, Some(2), Q::Greedy),
        Repeat(bx(Lit('a')), 1, Some(1), Q::Lazy),
        Concat(vec![Repeat(bx(Lit('a')), 1, Some(1), Q::Lazy), Lit('b')]),
        Repeat(bx(Lit('a')), 2, Some(2), Q::Lazy),
        Repeat(bx(Lit('a')), 2, Some(2), Q::Poss),
        Repeat(bx(Lit('é')), 1, Some(2), Q::Greedy),
        Repeat(bx(Any), 0, Some(1), Q::Greedy),
        Repeat(bx(Lit('a')), 0, None, Q::Greedy),
        Group(bx(Lit('é'))),
        Group(bx(Alt(vec![Lit('a'), Concat(vec![Lit('b'), Lit('b')])]))),
        Concat(vec![Group(bx(Any)), Backref(1)]),
        Class(false, vec![('a', 'b')]),
        Class(true, vec![('a', 'a')]),
        Perl('w'),
        Concat(vec![Assert(crate::ast::A::WordB), Lit('a')]),
        Concat(vec![Assert(crate::ast::A::StartText), Any]),
        Look(bx(Lit('a')), true, false),
        Look(bx(Lit('a')), false, false),
        Concat(vec![Lit('a'), Look(bx(Lit('a')), true, false)]),
        Atomic(bx(Alt(vec![Lit('a'), Concat(vec![Lit('a'), Lit('b')])]))),
        Empty,
        KeepOut,
        Concat(vec![Lit('a'), KeepOut]),
        CondExpr(bx(Lit('a')), bx(Lit('b')), bx(Concat(vec![Lit('c'), Lit('c')]))),
        CondExpr(bx(Lit('a')), bx(Lit('b')), bx(Empty)),
        CondExpr(bx(Lit('a')), bx(Empty), bx(Lit('b'))),
        // case-insensitive literals (still one character each), group tests, nested positive look-arounds
        Flags("i".into(), "".into(), bx(Lit('é'))),
        Flags("i".into(), "".into(), bx(Concat(vec![Lit('a'), Lit('é')]))),
        Flags("i".into(), "".into(), bx(Alt(vec![Lit('é'), Concat(vec![Lit('a'), Lit('b')])]))),
        Concat(vec![Look(bx(Lit('a')), true, false), Lit('b')]),
        Concat(vec![Look(bx(Concat(vec![Lit('a'), Any])), true, false), Lit('b')]),
        Concat(vec![Lit('a'), Look(bx(Lit('b')), false, false), Any]),
        Alt(vec![Lit('b'), Concat(vec![Look(bx(Lit('a')), true, false), Lit('b'), Lit('b')])]),
    ];
    let cond_bodies: Vec<Node> = vec![
        CondGroup(1, bx(Concat(vec![Lit('a'), Lit('b')])), bx(Concat(vec![Any, Lit('b')]))),
        CondGroup(1, bx(Lit('a')), bx(Lit('b'))),
        Concat(vec![GroupExists(1), Lit('b')]),
        Alt(vec![CondGroup(1, bx(Lit('a')), bx(Lit('b'))), Concat(vec![Lit('b'), Lit('b')])]),
    ];
    let mut out = vec![];
    for b in &bodies {
        for neg in [false, true] {
            let lb = Look(bx(b.clone()), true, neg);
            out.push(lb.clone());
            out.push(Concat(vec![lb.clone(), Lit('a')]));
            out.push(Concat(vec![Lit('a'), lb.clone()]));
            out.push(Concat(vec![Any, lb.clone(), Any]));
            out.push(Repeat(bx(Concat(vec![lb.clone(), Any])), 1, None, Q::Greedy));
            out.push(Concat(vec![Repeat(bx(Any), 0, None, Q::Greedy), lb.clone()]));
            out.push(Look(bx(Concat(vec![Any, lb.clone()])), true, false));
            out.push(Concat(vec![Group(bx(Any)), lb.clone(), Backref(1)]));
        }
    }
    // group tests inside a look-behind: (a)?b(?<=(?(1)ab|.b))c and friends
    for b in &cond_bodies {
        for neg in [false, true] {
            let lb = Look(bx(b.clone()), true, neg);
            out.push(Concat(vec![Repeat(bx(Group(bx(Lit('a')))), 0, Some(1), Q::Greedy), Lit('b'), lb.clone(), Lit('c')]));
            out.push(Concat(vec![Repeat(bx(Group(bx(Lit('a')))), 0, Some(1), Q::Greedy), Any, lb.clone()]));
            out.push(Concat(vec![Alt(vec![Group(bx(Lit('a'))), Lit('b')]), Lit('b'), lb]));
        }
    }
    gen::dedup_by_print(out.into_iter().map(super::api::flatten).collect())
}

pub fn run(ctx: &RunCtx) -> Outcome {
    let p = SizeFacts;
    let mut o = Outcome::default();
    o.rule = "(a) every sub-expression of every pattern of the unrestricted space (exhaustive trees, conditional trees, context x filler products, look-behind products, proptest random ASTs) that parses and analyses: the pattern is re-read through Expr::parse_tree and converted node for node into the reference AST, the instrumented reference matcher records over all texts and offsets the set of character lengths each node matched (in context), and these must respect the analysis facts read through the hook: min(observed) >= min_size, const_size => one observed length - also for patterns the compiler then rejects; and the build fails with LookBehindNotConst exactly when some look-behind body (or, for a top-level alternation, one of its alternatives) is not judged constant-size - and never when the syntax alone fixes the length of every such body (independent computation on the converted tree). (b) look-behind products (fixed / variable / multi-byte / alternated / nested bodies, inside loops) over multi-byte texts at every offset: results equal the reference matcher, or the build fails. Non-trivial (a) = the case contributed a new (node, length) observation for a node with non-zero minimum or constant size. Distinct = distinct (pattern, text, offset).".into();
    o.assumptions = vec!["reference matcher; conversion Expr -> reference AST (harness/src/conv.rs) keeps the tree shape, checked per pattern (alignment mismatches are skipped and counted)".into()];
    o.required_classes = vec!["feature:look-behind".into(), "build:ok".into(), "build:LookBehindNotConst".into(), "observed:compiled-pattern".into(), "observed:rejected-pattern".into()];
    let quick = ctx.quick();
    let mb3 = gen::texts(&['a', 'b', 'é', '€'], 3);
    let n = if quick { 4 } else { 5 };
    let mut wild = gen::wild_cfg();
    wild.ternary_concat = true;
    if !quick {
        wild.leaves.retain(|l| !matches!(l, ContG | Assert(crate::ast::A::EndText)));
    }
    let pats = space(&wild, n, true);
    if !stage(ctx, &mut o, &p, &format!("facts: unrestricted leaves N<={}", n), &pats, &mb3) {
        return o;
    }
    o.exhaustive = Some(format!("size facts of every node of every tree with <= {} nodes over the unrestricted leaf set, observed over all texts over {{a,b,é,€}} of length <= 3", n));
    let cpats: Vec<Node> = space(&gen::cond_cfg(), if quick { 4 } else { 5 }, true).into_iter().filter(|x| x.has_cond()).collect();
    if !stage(ctx, &mut o, &p, "facts: conditional trees", &cpats, &gen::texts(&['a', 'b', 'c'], 3)) {
        return o;
    }
    let lb = lookbehind_products();
    let mbt = {
        let mut t = gen::texts(&['a', 'b', 'é', '€'], 3);
        t.extend(["aéab", "éaéb", "€€a€", "abcd", "ccab", "aaaa", "\u{800}a\u{7ff}", "😀a😀b"].iter().map(|s| s.to_string()));
        t
    };
    if !stage(ctx, &mut o, &p, "facts: look-behind products", &lb, &mbt) {
        return o;
    }
    let prods = product_space(true, if quick { 1 } else { 2 });
    if !stage(ctx, &mut o, &p, "facts: context x filler", &prods, &gen::texts(&['a', 'b', 'é'], 3)) {
        return o;
    }
    let cases = if quick { 60_000 } else { 1_000_000 };
    let rt = gen::texts(&['a', 'b', 'é'], 3);
    if !stage_random(ctx, &mut o, &p, "facts: random unrestricted", &RandCfg::wild(), &rt, cases, &|_| true) {
        return o;
    }
    // (b) differential on look-behind patterns over multi-byte texts
    let d = DiffRef { caps: true, allow_cond: true, cond_focus: false, omit_empty_no: false, only_pos0: false, f1_undisputed: false, free_cond_refs: false, ref_style: 0 };
    let lb2: Vec<Node> = lb.into_iter().filter(|x| known_class(ctx, x).is_none()).collect();
    stage(ctx, &mut o, &d, "look-behind products vs reference (multi-byte texts)", &lb2, &mbt);
    o
}

pub fn replay(ctx: &RunCtx, case: &serde_json::Value) -> Result<Option<Fail>, String> {
    if case.get("extra").map_or(false, |e| e.get("omit_empty_no").is_some()) {
        let d = DiffRef { caps: true, allow_cond: true, cond_focus: false, omit_empty_no: false, only_pos0: false, f1_undisputed: false, free_cond_refs: false, ref_style: 0 };
        return replay_pat(ctx, &d, case);
    }
    // facts accumulate over texts: replay the whole text set up to the recorded one
    let n = case_node(case).ok_or("no ast")?;
    let text = case.get("text").and_then(|t| t.as_str()).unwrap_or("");
    let p = SizeFacts;
    let mut st = Stats::default();
    let pat = n.to_pattern();
    match p.prepare(ctx, &n, &pat, &mut st) {
        Prep::Ready(prep) => {
            let mut pos = 0;
            loop {
                if let Verdict::Fail(f) = p.eval(ctx, &prep, &n, text, pos) {
                    return Ok(Some(f));
                }
                match text[pos..].chars().next() {
                    Some(c) => pos += c.len_utf8(),
                    None => return Ok(None),
                }
            }
        }
        Prep::Fail(f) => Ok(Some(f)),
        Prep::Skip(r) | Prep::Excluded(r) => Err(format!("outside the domain: {}", r)),
    }
}
