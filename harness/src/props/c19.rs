//! C19: documented-equivalent spellings parse to the same expression tree and behave identically.
use super::c01::{stage, stage_random};
use super::diffref::known_class;
use super::{product_space, space};
use crate::ast::{Node, Node::*, PrintOpts, A, Q};
use crate::conv;
use crate::core::*;
use crate::engine::{self, Built};
use crate::gen::{self, RandCfg};
use fancy_regex::{Expr, Regex};

pub const VARIANTS: [&str; 18] = [
    "x-mode, one space between tokens, spaced braces",
    "x-mode, mixed whitespace and # comments",
    "(?#..) comments between tokens",
    "\\xHH / \\x{H} / \\uHHHH / \\UHHHHHHHH literals (cycled)",
    "named groups (?<n>..) with \\k<n>",
    "named groups (?P<n>..) with (?P=n)",
    "relative back-references \\k<-n>",
    "possessive as atomic group, ^ $ as \\A \\z, raw newline, \\h \\H \\e",
    "scoped flag groups as inline flags in a non-capturing group",
    "\\x{H} literals + (?#) comments + \\A \\z",
    "hash-chosen mixture",
    "top-level scoped flag group (?on:X) as (?on)X(?-on)",
    "(?-m:^) (?-m:$) as \\A \\z (under every flag setting)",
    "atomic group around a quantified atom as possessive suffix (X*?+ for a lazy one)",
    "redundant non-capturing groups around pairs of concatenation members (behaviour only)",
    "quote-delimited references \\k'N' and group tests (?('N')..)",
    "quote-delimited relative references \\k'-n' and group tests (?('-n')..)",
    "relative references \\k<-n> and relative group tests (?(<-n>)..)",
];

pub struct Respell {
    pub variant: usize,
}

fn names_for(n: &Node) -> Vec<Option<String>> {
    (0..n.n_groups()).map(|i| Some(format!("g{}", (b'a' + (i % 26) as u8) as char))).collect()
}

fn join(tokens: &[String], sep: impl Fn(usize) -> &'static str) -> String {
    let mut out = String::new();
    for (i, t) in tokens.iter().enumerate() {
        if i > 0 {
            out.push_str(sep(i));
        }
        out.push_str(t);
    }
    out
}

pub fn respell(n: &Node, variant: usize) -> String {
    let h = hash64(&n.to_pattern());
    // `^` / `$` are only the same as `\A` / `\z` outside multi-line mode
    let az = !n.any(|x| matches!(x, Flags(on, _, _) | SetFlags(on, _) if on.contains('m')));
    match variant {
        0 => {
            let o = PrintOpts { spaced_braces: true, ..Default::default() };
            format!("(?x) {} ", join(&n.tokens(&o), |_| " "))
        }
        1 => {
            let o = PrintOpts { spaced_braces: true, ..Default::default() };
            const SEPS: [&str; 7] = [" ", "\n", "\t ", " # c(\n", "", "  \r\n", " #é😀 )x\n"];
            format!("(?x)# léad €\n{}\n# tail", join(&n.tokens(&o), |i| SEPS[((h >> (i % 48)) as usize + i) % SEPS.len()]))
        }
        2 => format!("(?#a){}(?#)", join(&n.tokens(&PrintOpts::default()), |i| if i % 2 == 0 { "(?#x|y\\))" } else { "(?# )" })),
        3 => n.to_pattern_with(&PrintOpts { lit_style: 5, ..Default::default() }),
        4 => n.to_pattern_with(&PrintOpts { names: names_for(n), name_style: 0, backref_style: 1, ..Default::default() }),
        5 => n.to_pattern_with(&PrintOpts { names: names_for(n), name_style: 1, backref_style: 2, ..Default::default() }),
        6 => n.to_pattern_with(&PrintOpts { rel_backrefs: true, ..Default::default() }),
        7 => n.to_pattern_with(&PrintOpts { poss_as_atomic: true, anchors_az: az, raw_newline: true, short_escapes: true, ..Default::default() }),
        8 => n.to_pattern_with(&PrintOpts { flags_inline: true, ..Default::default() }),
        9 => join(&n.tokens(&PrintOpts { lit_style: 2, anchors_az: az, ..Default::default() }), |i| if i % 3 == 0 { "(?#q)" } else { "" }),
        12 => n.to_pattern_with(&PrintOpts { anchors_az: true, ..Default::default() }),
        13 => n.to_pattern_with(&PrintOpts { atomic_as_poss: true, ..Default::default() }),
        14 => n.to_pattern_with(&PrintOpts { redundant_groups: true, ..Default::default() }),
        15 => n.to_pattern_with(&PrintOpts { quote_refs: 1, ..Default::default() }),
        16 => n.to_pattern_with(&PrintOpts { quote_refs: 2, ..Default::default() }),
        17 => n.to_pattern_with(&PrintOpts { quote_refs: 3, ..Default::default() }),
        11 => {
            // only meaningful when nothing else sets flags around the toggled groups
            let nested = n.any(|x| matches!(x, Flags(_, _, c) if c.any(|y| matches!(y, Flags(..) | SetFlags(..) | AnyNl | Assert(A::StartLine) | Assert(A::EndLine))))) || n.any(|x| matches!(x, SetFlags(..)));
            n.to_pattern_with(&PrintOpts { flags_toggle: !nested, ..Default::default() })
        }
        _ => {
            let o = PrintOpts {
                lit_style: (h % 6) as u8,
                anchors_az: az && h >> 3 & 1 == 1,
                poss_as_atomic: h >> 4 & 1 == 1,
                rel_backrefs: h >> 5 & 1 == 1,
                flags_inline: h >> 6 & 1 == 1,
                spaced_braces: h >> 7 & 1 == 1,
                short_escapes: h >> 8 & 1 == 1,
                ..Default::default()
            };
            let toks = n.tokens(&o);
            if h >> 7 & 1 == 1 {
                format!("(?x){}", join(&toks, |i| if (h >> (i % 40)) & 1 == 1 { " " } else { "\n" }))
            } else {
                join(&toks, |i| if (h >> (i % 40)) & 3 == 0 { "(?#)" } else { "" })
            }
        }
    }
}

/// Expr equality, except that the case-insensitivity flag of a literal without cased characters is
/// irrelevant (`(?i:\n)` parses to a case-sensitive literal, `(?i:\x0A)` to a case-insensitive one:
/// the same expression for every purpose)
fn expr_eq(a: &Expr, b: &Expr) -> bool {
    use Expr::*;
    let caseless = |s: &str| s.chars().all(|c| c.to_lowercase().eq(c.to_uppercase()));
    match (a, b) {
        (Literal { val: v1, casei: c1 }, Literal { val: v2, casei: c2 }) => v1 == v2 && (c1 == c2 || caseless(v1)),
        (Concat(x), Concat(y)) | (Alt(x), Alt(y)) => x.len() == y.len() && x.iter().zip(y).all(|(p, q)| expr_eq(p, q)),
        (Group(x), Group(y)) | (AtomicGroup(x), AtomicGroup(y)) => expr_eq(x, y),
        (LookAround(x, l1), LookAround(y, l2)) => l1 == l2 && expr_eq(x, y),
        (Repeat { child: x, lo: l1, hi: h1, greedy: g1 }, Repeat { child: y, lo: l2, hi: h2, greedy: g2 }) => l1 == l2 && h1 == h2 && g1 == g2 && expr_eq(x, y),
        (Conditional { condition: c1, true_branch: t1, false_branch: f1 }, Conditional { condition: c2, true_branch: t2, false_branch: f2 }) => expr_eq(c1, c2) && expr_eq(t1, t2) && expr_eq(f1, f2),
        _ => a == b,
    }
}

pub struct RP {
    a: Regex,
    b: Regex,
    differs: bool,
}

impl PatProp for Respell {
    type P = RP;
    fn spell(&self, n: &Node) -> String {
        respell(n, self.variant)
    }
    fn extra(&self) -> serde_json::Value {
        serde_json::json!({"variant": self.variant, "variant_name": VARIANTS[self.variant]})
    }
    fn prepare(&self, ctx: &RunCtx, n: &Node, pat: &str, st: &mut Stats) -> Prep<RP> {
        if n.has_leaky_inline_flag() && ctx.active("inline_flag_inside_non_flag_group") {
            return Prep::Excluded("F5:inline_flag_inside_non_flag_group");
        }
        let _ = known_class;
        // variant 12 compares two respellings: `(?-m:^)` / `(?-m:$)` against `\A` / `\z`
        let base = if self.variant == 12 { n.to_pattern_with(&PrintOpts { anchors_negm: true, ..Default::default() }) } else { n.to_pattern() };
        let a = match engine::build(&base) {
            Built::Ok(r) => r,
            Built::Err(_) => return Prep::Skip("compile:base-error"),
            Built::Panic(p) => return Prep::Fail(Fail::new("compile-panic", "Ok or Err", p)),
        };
        let b = match engine::build(pat) {
            Built::Ok(r) => r,
            Built::Err(e) => return Prep::Fail(Fail::new("respelled-does-not-compile", format!("{:?} compiles like {:?}", pat, base), engine::err_kind(&e))),
            Built::Panic(p) => return Prep::Fail(Fail::new("compile-panic", "Ok or Err", p)),
        };
        // same expression tree (the toggle spelling flattens a nested concatenation, which is a different
        // tree by construction: only its behaviour is compared)
        if self.variant != 11 && self.variant != 14 {
        match (Expr::parse_tree(&base), Expr::parse_tree(pat)) {
            (Ok(ta), Ok(tb)) => {
                if !expr_eq(&ta.expr, &tb.expr) {
                    return Prep::Fail(Fail::new("tree-differs", format!("{:?} => {:?}", base, ta.expr), format!("{:?} => {:?}", pat, tb.expr)));
                }
            }
            _ => return Prep::Fail(Fail::new("tree-differs", "both parse", "one does not parse")),
        }
        }
        let differs = base != pat;
        st.class(if differs { "spelling:changed" } else { "spelling:identical" });
        Prep::Ready(RP { a, b, differs })
    }

    fn eval(&self, _ctx: &RunCtx, p: &RP, _n: &Node, t: &str, pos: usize) -> Verdict {
        let x = engine::captures_from_pos(&p.a, t, pos);
        let y = engine::captures_from_pos(&p.b, t, pos);
        if x != y {
            return Verdict::Fail(Fail::new("behaviour-differs", format!("base: {}", x.show()), format!("respelled: {}", y.show())));
        }
        let matched = matches!(x, engine::Out::Val(Some(_)));
        Verdict::Pass { nontrivial: p.differs && matched, class: None }
    }
}

// ---------------------------------------------------------------------------------------------
// round trip: harness AST -> printer -> crate parser -> conversion -> harness AST (up to the
// parser's documented normalisations). Guards the node alignment C13 relies on.

pub fn normalize(n: &Node) -> Node {
    let bx = |x: &Node| Box::new(normalize(x));
    match n {
        Class(neg, rs) => {
            // printed as one class token; the parser keeps the text verbatim
            let printed = Class(*neg, rs.clone()).to_pattern();
            Raw(printed, false)
        }
        Perl(c) => Raw(format!("\\{}", c), false),
        Assert(A::EndZ) => Look(Box::new(Raw("\\n*$".into(), false)), false, false),
        Concat(v) => {
            let w: Vec<Node> = v.iter().map(normalize).filter(|x| *x != Empty).collect();
            match w.len() {
                0 => Empty,
                1 => w.into_iter().next().unwrap(),
                _ => {
                    // nested concatenations print inside (?:..), which the parser keeps nested
                    Concat(w)
                }
            }
        }
        Alt(v) => Alt(v.iter().map(normalize).collect()),
        Group(c) => Group(bx(c)),
        Repeat(c, lo, hi, Q::Poss) => Atomic(Box::new(Repeat(bx(c), *lo, *hi, Q::Greedy))),
        Repeat(c, lo, hi, q) => Repeat(bx(c), *lo, *hi, *q),
        Look(c, b, ng) => Look(bx(c), *b, *ng),
        Atomic(c) => Atomic(bx(c)),
        CondGroup(g, y, no) => {
            let (y2, n2) = (normalize(y), normalize(no));
            CondExpr(Box::new(GroupExists(*g)), Box::new(y2), Box::new(n2))
        }
        CondExpr(c, y, no) => {
            let (c2, y2, n2) = (normalize(c), normalize(y), normalize(no));
            CondExpr(Box::new(c2), Box::new(y2), Box::new(n2))
        }
        other => other.clone(),
    }
}

pub struct RoundTrip;

impl PatProp for RoundTrip {
    type P = ();
    fn all_offsets(&self) -> bool {
        false
    }
    fn prepare(&self, _ctx: &RunCtx, n: &Node, pat: &str, st: &mut Stats) -> Prep<()> {
        if n.any(|x| matches!(x, Flags(..) | SetFlags(..) | Raw(..))) {
            return Prep::Skip("domain:flags");
        }
        let back = match conv::parse(pat) {
            Ok(t) => t,
            Err(e) if e.starts_with("parse error") => return Prep::Skip("compile:parse-error"),
            Err(_) => return Prep::Skip("conversion:unsupported"),
        };
        let want = normalize(n);
        if back != want {
            return Prep::Fail(Fail::new("roundtrip", format!("{:?}", want), format!("{:?} (pattern {:?})", back, pat)));
        }
        st.class("roundtrip:ok");
        st.evaluations += 1;
        st.nontrivial_add(hash64(&pat), 1);
        Prep::Skip("roundtrip:checked")
    }
    fn eval(&self, _ctx: &RunCtx, _p: &(), _n: &Node, _t: &str, _pos: usize) -> Verdict {
        Verdict::Skip("n/a")
    }
}

fn flag_bases() -> Vec<Node> {
    let mut out = vec![];
    let mut cfg = gen::common_cfg();
    cfg.leaves = vec![Lit('a'), Lit('B'), Lit('é'), Any, Class(false, vec![('a', 'b')]), Assert(A::StartText), Assert(A::EndText), Lit('\n'), AnyNl, Assert(A::StartLine), Assert(A::EndLine)];
    cfg.leaves.extend([Lit('.'), Lit('*'), Lit('(')]);
    cfg.unary.push(|c| if matches!(c, Repeat(_, _, _, Q::Greedy | Q::Lazy)) { Some(Atomic(Box::new(c))) } else { None });
    cfg.unary.push(|c| if c.repeatable() { Some(Repeat(Box::new(c), 0, None, Q::Poss)) } else { None });
    cfg.unary.push(|c| if c.repeatable() { Some(Repeat(Box::new(c), 1, Some(2), Q::Poss)) } else { None });
    for b in space(&cfg, 3, false) {
        for (on, off) in [("i", ""), ("s", ""), ("m", ""), ("U", ""), ("is", "m"), ("", "i"), ("is", ""), ("ism", ""), ("sU", ""), ("i", "sm"), ("", "is")] {
            out.push(Flags(on.into(), off.into(), Box::new(b.clone())));
            out.push(Concat(vec![Flags(on.into(), off.into(), Box::new(b.clone())), Lit('a')]));
            out.push(Concat(vec![Lit('B'), Repeat(Box::new(Flags(on.into(), off.into(), Box::new(b.clone()))), 0, Some(1), Q::Greedy)]));
        }
        out.push(b);
    }
    gen::dedup_by_print(out)
}

pub fn run(ctx: &RunCtx) -> Outcome {
    let mut o = Outcome::default();
    o.rule = format!("every pattern of the C01 space (exhaustive trees over the core and unicode leaf sets, context x filler products, proptest random ASTs) and flag-group variants, respelled by {} transformers applied to all tokens of the pattern: free-spacing (?x) with spaces / newlines / tabs / # comments and spaced {{ n , m }}, (?#..) comments, \\xHH \\x{{H}} \\uHHHH \\UHHHHHHHH literals, named groups in both syntaxes with \\k<n> / (?P=n), relative \\k<-n>, possessive as atomic group, ^ $ as \\A \\z, raw newline, scoped flag groups as inline flags in a non-capturing group, (?-m:^) (?-m:$) against \\A \\z, and a hash-chosen mixture; plus 24 pairs of bracketed classes with \\h \\H \\e \\xHH items against their documented expansions in seven hosts. Oracle: Expr::parse_tree of both spellings gives equal trees and captures_from_pos is equal on every text and offset. Plus the round trip harness AST -> printer -> crate parser -> conversion == normalised harness AST. Non-trivial = the spelling differs and the text matches. Distinct = distinct (respelled pattern, text, offset).", VARIANTS.len());
    o.assumptions = vec!["metamorphic: the default spelling printed by the harness is the base".into()];
    o.required_classes = vec!["spelling:changed".into(), "roundtrip:ok".into()];
    let quick = ctx.quick();
    let n = if quick { 3 } else { 4 };
    let mut bases = space(&gen::core_cfg(), n, false);
    bases.extend(space(&gen::uni_cfg(), n, false));
    let bases = gen::dedup_by_print(bases);
    let prods = product_space(true, 1);
    let mut fb = flag_bases();
    {
        // bases for the \h \H \e spellings
        let mut cfg = gen::common_cfg();
        cfg.leaves = vec![Lit('a'), Lit('\u{1b}'), Class(false, vec![('0', '9'), ('A', 'F'), ('a', 'f')]), Class(true, vec![('0', '9'), ('A', 'F'), ('a', 'f')]), Any];
        fb.extend(space(&cfg, 3, false));
    }
    {
        // runs of three or four literals as the whole body of a look-around / atomic group (where the compiler emits
        // one literal instruction), alone and next to other things
        let runs = [vec!['a', 'b', 'c'], vec!['a', 'é', 'b'], vec!['a', 'b', 'a', 'b']];
        for r in runs {
            let body = Concat(r.iter().map(|c| Lit(*c)).collect());
            for w in [Look(Box::new(body.clone()), false, false), Look(Box::new(body.clone()), true, false), Look(Box::new(body.clone()), true, true), Atomic(Box::new(body.clone()))] {
                fb.push(w.clone());
                fb.push(Concat(vec![w.clone(), Any]));
                fb.push(Concat(vec![Lit('a'), Lit('b'), w.clone()]));
                fb.push(Concat(vec![Group(Box::new(Any)), w.clone(), Backref(1)]));
            }
        }
    }
    let texts = gen::text_set(&gen::SIGMA5, 2, 4);
    let mut ftexts = gen::texts(&['a', 'A', 'B', 'é', 'É', '\n'], 3);
    ftexts.extend(gen::texts(&['a', 'F', 'g', '7', '\u{1b}'], 2));
    ftexts.extend(gen::texts(&['a', 'B', '.', '*', '('], 2));
    ftexts.extend(["abc", "abca", "aéb", "abab", "ababa", "cabc", "abcabc"].iter().map(|s| s.to_string()));
    // round trip first
    {
        let rt = RoundTrip;
        let mut all = bases.clone();
        all.extend(prods.iter().cloned());
        all.extend(space(&gen::cond_cfg(), if quick { 4 } else { 5 }, false));
        if !stage(ctx, &mut o, &rt, "round trip printer -> parser -> conversion", &all, &[String::new()]) {
            return o;
        }
    }
    // the transformers added later only touch particular constructs: bases without them would be respelled identically
    let relevant = |v: usize, x: &Node| -> bool {
        match v {
            12 => x.any(|y| matches!(y, Assert(A::StartText | A::EndText))),
            13 => x.any(|y| matches!(y, Atomic(c) if matches!(&**c, Repeat(_, _, _, Q::Greedy | Q::Lazy)))),
            14 => x.any(|y| matches!(y, Concat(w) if w.len() >= 2)),
            15 | 16 | 17 => x.any(|y| matches!(y, Backref(_) | CondGroup(..) | GroupExists(_))),
            _ => true,
        }
    };
    for v in 0..VARIANTS.len() {
        let p = Respell { variant: v };
        let pick = |set: &[Node]| -> Vec<Node> { set.iter().filter(|x| relevant(v, x)).cloned().collect() };
        if !stage(ctx, &mut o, &p, &format!("trees N<={} | {}", n, VARIANTS[v]), &pick(&bases), &texts) {
            return o;
        }
        if !stage(ctx, &mut o, &p, &format!("context x filler | {}", VARIANTS[v]), &pick(&prods), &gen::texts(&['a', 'b', 'c'], 3)) {
            return o;
        }
        if !stage(ctx, &mut o, &p, &format!("flag groups | {}", VARIANTS[v]), &pick(&fb), &ftexts) {
            return o;
        }
    }
    // escapes inside bracketed classes against their documented expansions
    if let Some(v) = class_pairs(&mut o.stats) {
        o.violations.push(v);
        return o;
    }
    o.exhaustive = Some(format!("{} respellings of every valid tree with <= {} nodes over the core and unicode leaf sets, of the depth-1 products and of the flag-group variants", VARIANTS.len(), n));
    let cases = if quick { 20_000 } else { 300_000 };
    let rtexts = gen::texts(&['a', 'b', 'é', '\n'], 3);
    for v in [1usize, 3, 6, 10] {
        let p = Respell { variant: v };
        if !stage_random(ctx, &mut o, &p, &format!("random | {}", VARIANTS[v]), &RandCfg::cond(), &rtexts, cases, &|_| true) {
            return o;
        }
    }
    o
}

const CLASS_PAIRS: &[(&str, &str)] = &[
    ("[\\H]", "[^0-9A-Fa-f]"), ("[\\h]", "[0-9A-Fa-f]"), ("[_\\H]", "[_[^0-9A-Fa-f]]"), ("[\\d\\H]", "[\\d[^0-9A-Fa-f]]"), ("[^\\H]", "[^[^0-9A-Fa-f]]"), ("[^_\\H]", "[^_[^0-9A-Fa-f]]"),
    ("[\\H&&[a-z]]", "[[^0-9A-Fa-f]&&[a-z]]"), ("[a-z&&\\H]", "[a-z&&[^0-9A-Fa-f]]"), ("[\\h_]", "[[0-9A-Fa-f]_]"), ("[_\\h]", "[_[0-9A-Fa-f]]"), ("[^\\h]", "[^[0-9A-Fa-f]]"), ("[^\\h_]", "[^[0-9A-Fa-f]_]"),
    ("[\\h&&[^a]]", "[[0-9A-Fa-f]&&[^a]]"), ("[g-z&&[^\\h]]", "[g-z&&[^[0-9A-Fa-f]]]"), ("[\\h\\H]", "[[0-9A-Fa-f][^0-9A-Fa-f]]"), ("[\\H-]", "[[^0-9A-Fa-f]-]"), ("[-\\H]", "[-[^0-9A-Fa-f]]"), ("[\\^\\H]", "[\\^[^0-9A-Fa-f]]"),
    ("[x\\e]", "[x\\x1B]"), ("[\\e-z]", "[\\x1B-z]"), ("[\\n\\H]", "[\\x0A[^0-9A-Fa-f]]"), ("[\\x41\\H]", "[A[^0-9A-Fa-f]]"), ("[\\w&&\\H]", "[\\w&&[^0-9A-Fa-f]]"), ("[[:alpha:]&&\\H]", "[[:alpha:]&&[^0-9A-Fa-f]]"),
];

const CLASS_HOSTS: &[(&str, &str)] = &[("", ""), ("(?=)", ""), ("", "+\\b"), ("(?i:", ")"), ("(?<=", ")."), ("(", ")\\1"), ("(?x: ", " )")];

fn check_class_pair(a: &str, b: &str, host: (&str, &str), texts: &[String]) -> Result<u64, (String, Fail)> {
    let pa = format!("{}{}{}", host.0, a, host.1);
    let pb = format!("{}{}{}", host.0, b, host.1);
    let (ra, rb) = match (engine::build(&pa), engine::build(&pb)) {
        (Built::Ok(x), Built::Ok(y)) => (x, y),
        (Built::Err(_), Built::Err(_)) => return Ok(0),
        (x, y) => {
            let show = |b: &Built| match b {
                Built::Ok(_) => "Ok".to_string(),
                Built::Err(e) => format!("Err({})", engine::err_kind(e)),
                Built::Panic(p) => format!("PANIC({})", p),
            };
            return Err((String::new(), Fail::new("class-spelling-compiles", format!("{:?}: {}", pb, show(&y)), format!("{:?}: {}", pa, show(&x)))));
        }
    };
    let mut n = 0;
    for t in texts {
        for pos in engine::char_offsets(t) {
            let x = engine::captures_from_pos(&ra, t, pos);
            let y = engine::captures_from_pos(&rb, t, pos);
            if x != y {
                return Err((t.clone(), Fail::new("class-spelling-differs", format!("{:?}: {}", pb, y.show()), format!("{:?} from {}: {}", pa, pos, x.show()))));
            }
            if matches!(x, engine::Out::Val(Some(_))) {
                n += 1;
            }
        }
    }
    Ok(n)
}

fn class_texts() -> Vec<String> {
    gen::texts(&['a', 'g', 'G', 'F', '0', '_', '^', '-', '\u{1b}', '\n', 'é'], 2)
}

/// `\h`, `\H`, `\e`, `\xHH` as items of a bracketed class against the documented expansions, in seven hosts
fn class_pairs(st: &mut Stats) -> Option<Violation> {
    let texts = class_texts();
    for (a, b) in CLASS_PAIRS {
        for host in CLASS_HOSTS {
            st.evaluations += texts.len() as u64 * 2;
            match check_class_pair(a, b, *host, &texts) {
                Ok(n) => {
                    st.class("class-item-spelling:pair-host");
                    st.nontrivial_add(hash64(&(a, host)), n.min(u32::MAX as u64) as u32);
                }
                Err((t, fail)) => return Some(Violation { case: serde_json::json!({"class_pair": [a, b], "host": [host.0, host.1], "text": t}), fail }),
            }
        }
    }
    None
}

pub fn replay(ctx: &RunCtx, case: &serde_json::Value) -> Result<Option<Fail>, String> {
    if let Some(pair) = case.get("class_pair").and_then(|x| x.as_array()) {
        let a = pair.first().and_then(|x| x.as_str()).ok_or("no pair")?;
        let b = pair.get(1).and_then(|x| x.as_str()).ok_or("no pair")?;
        let h = case.get("host").and_then(|x| x.as_array()).ok_or("no host")?;
        let host = (h.first().and_then(|x| x.as_str()).unwrap_or(""), h.get(1).and_then(|x| x.as_str()).unwrap_or(""));
        return Ok(check_class_pair(a, b, host, &class_texts()).err().map(|(_, f)| f));
    }
    match case.get("extra").and_then(|e| e.get("variant")).and_then(|v| v.as_u64()) {
        Some(v) => replay_pat(ctx, &Respell { variant: v as usize }, case),
        None => {
            let n = case_node(case).ok_or("no ast")?;
            let mut st = Stats::default();
            match RoundTrip.prepare(ctx, &n, &n.to_pattern(), &mut st) {
                Prep::Fail(f) => Ok(Some(f)),
                _ => Ok(None),
            }
        }
    }
}
