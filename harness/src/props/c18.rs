//! C18: a compiled regex can be used from many threads at once. Stress + differential oracle
//! (single-threaded results computed beforehand) + compile-time Send/Sync/Clone assertion.
use crate::core::*;
use crate::engine;
use crate::refm::Span;
use fancy_regex::Regex;
use proptest::strategy::{Strategy, ValueTree};
use proptest::test_runner::{Config, RngAlgorithm, TestRng, TestRunner};
use serde_json::{json, Value};
use std::panic::{catch_unwind, AssertUnwindSafe};
use std::process::Command;
use std::sync::atomic::{AtomicU64, AtomicUsize, Ordering};
use std::sync::{Arc, Barrier};

pub const PATTERNS: &[&str] = &[
    // delegated as a whole
    r"\w+", r"(a+)(b*)", r"[a-c]+|é", r"(?i)abc", r"a{2,3}?", r"(?m)^a.*$", r"\d+-\d+", r"(x)?(y)?z",
    // VM with delegates
    r"(\w+) \1", r"\b\w+(?=!)", r"(?<=a)b+", r"(?<!a)b\w*", r"(?>a+)ab|a\w", r"(a|ab)(c|bcd)\2?", r"\w+(?!\d)\b", r"(?=(\w+))\1:", r"(?:(\w)\1)+", r"\G\d", r"a\Kb+", r"(?((?=a))ab|\w+)", r"(?>(\w+)=(\d+));", r"(?=(\w+)=(\d+))\w", r"(?<=(\w)(\d))x|(\w)=", r"(\w+)-\1!",
    r"(a)?(?(1)b|c)\w", r"(?:a|b)*+c", r"(?i:ab)\b|(?<=c)d", r"((?:a|b)+?)\1", r"(?<n>\w)\k<n>+", r"^(?:(?!ab).)*$", r"(\d+)(?=(\D+))\2", r"(?<=\d{2})x|y(?!z)",
    // VM without delegates / counters / atomic
    r"(?>a*)b", r"(?:a{2}){1,3}+b", r"(a*)*?b\1", r"(?=a)(?!ab)a.", r"(.)(.)\2\1", r"(?:(a)|(b)|(c))+\3?", r"\Ba\B", r"(?<=(?<!a)b)c",
];

pub const TEXTS: &[&str] = &[
    "", "a", "ab", "abc", "aab aab", "foo foo bar bar", "so fancy! even with! iterators!", "aaab", "ababab", "abcbcd", "12-34 56-7", "a1 b22 c333", "xyz z yz", "hello hello", "aabb ccdd",
    "ABC abc AbC", "a\nab\nabc", "éé aé éa", "1122 33", "ab:ab: cd:", "bcbc", "abba cddc", "yz y", "12x y", "aaaaaaaaaaaaaaaaaaaaaaab", "aaaaaaaaaaaaaaaaaaaaaaaa", "b", "cab", "x", "aXbXc", "key=12; k2=345; zz=6;", "a1x b2x c=", "abcdefghijklmnopqrstuvwxyzabcdefghijklmnopqrstuvwxyzabcdefghijklmnopqrstuvwxyz-abc?",
];

#[derive(Clone, Debug, PartialEq, Eq)]
enum Res {
    Caps(Option<Vec<Span>>),
    Iter(Vec<(usize, usize)>, Option<String>),
    CapsIter(Vec<Vec<Span>>, Option<String>),
    Pieces(Vec<String>, Option<String>),
    Find(Option<(usize, usize)>, bool),
    Repl(Result<String, String>),
    Panic(String),
}

const NKINDS: usize = 8;
const KIND_NAMES: [&str; NKINDS] = ["captures", "find_iter", "try_replacen", "captures_iter", "split", "find + is_match", "try_replacen with a closure that searches with the same regex", "try_replacen with a closure that panics"];

fn call(re: &Regex, text: &str, kind: usize) -> Res {
    match catch_unwind(AssertUnwindSafe(|| match kind % NKINDS {
        0 => match re.captures(text) {
            Ok(c) => Res::Caps(c.map(|c| engine::caps_vec(&c))),
            Err(e) => Res::Repl(Err(engine::err_kind(&e))),
        },
        1 => match engine::find_iter_spans(re, text, text.len() + 3) {
            engine::Out::Val((v, e)) => Res::Iter(v, e),
            other => Res::Panic(other.show()),
        },
        2 => Res::Repl(re.try_replacen(text, 0, "<$0|$1>").map(|c| c.into_owned()).map_err(|e| engine::err_kind(&e))),
        3 => {
            let mut v = vec![];
            let mut err = None;
            for c in re.captures_iter(text).take(text.len() + 3) {
                match c {
                    Ok(c) => v.push(engine::caps_vec(&c)),
                    Err(e) => {
                        err = Some(engine::err_kind(&e));
                        break;
                    }
                }
            }
            Res::CapsIter(v, err)
        }
        4 => {
            let mut v = vec![];
            let mut err = None;
            for p in re.split(text).take(text.len() + 4) {
                match p {
                    Ok(p) => v.push(p.to_string()),
                    Err(e) => {
                        err = Some(engine::err_kind(&e));
                        break;
                    }
                }
            }
            Res::Pieces(v, err)
        }
        5 => match (re.find(text), re.is_match(text)) {
            (Ok(m), Ok(b)) => Res::Find(m.map(|m| (m.start(), m.end())), b),
            (Err(e), _) | (_, Err(e)) => Res::Repl(Err(engine::err_kind(&e))),
        },
        // a replacer may use the regex it is called from (re-entrancy on the same thread)
        6 => {
            if text.len() > 100_000 {
                return Res::Repl(Ok(String::new()));
            }
            Res::Repl(
                re.try_replacen(text, 2, |c: &fancy_regex::Captures<'_>| {
                    let inner = re.is_match(&c[0]).unwrap_or(false);
                    let again = re.replace(&c[0], "_").len();
                    format!("[{}{}{}]", &c[0], if inner { "+" } else { "-" }, again)
                })
                .map(|c| c.into_owned())
                .map_err(|e| engine::err_kind(&e)),
            )
        }
        // a panic in a user callback is the caller's business: it must not break later calls (nothing may stay locked)
        _ => {
            if text.len() > 100_000 {
                return Res::Repl(Ok(String::new()));
            }
            let r = catch_unwind(AssertUnwindSafe(|| re.try_replacen(text, 1, |_: &fancy_regex::Captures<'_>| -> String { panic!("replacer panics") }).map(|c| c.into_owned()).map_err(|e| engine::err_kind(&e))));
            match r {
                Ok(v) => Res::Repl(v),
                Err(_) => Res::Panic("replacer panics (expected)".to_string()),
            }
        }
    })) {
        Ok(r) => r,
        Err(e) => Res::Panic(engine::panic_msg(e)),
    }
}

/// lets the stress code share a `Regex` across threads even if the type were not `Sync`
/// (that static part of the property is judged by the separate harness_static crate)
struct Shared(Regex);
unsafe impl Sync for Shared {}
unsafe impl Send for Shared {}

fn static_check() -> Result<(), Fail> {
    let run = |dir: &str, target: &str| {
        Command::new("cargo").args(["build", "--offline", "--quiet"]).current_dir(dir).env("CARGO_NET_OFFLINE", "true").env("CARGO_TARGET_DIR", target).output()
    };
    let stat = run(&format!("{}/harness_static", verif_dir()), &format!("{}/harness/target/static", verif_dir())).map_err(|e| Fail::new("infra", "cargo runs", e.to_string()))?;
    if stat.status.success() {
        return Ok(());
    }
    let err = String::from_utf8_lossy(&stat.stderr).to_string();
    // distinguish "the crate itself does not build" (not our verdict) from "Regex is not Send + Sync + Clone"
    let relevant: Vec<&str> = err.lines().filter(|l| l.contains("cannot be sent") || l.contains("cannot be shared") || l.contains("Send") || l.contains("Sync") || l.contains("Clone") || l.contains("E0277")).take(6).collect();
    if relevant.is_empty() {
        return Err(Fail::new("infra", "harness_static builds", err.lines().filter(|l| l.starts_with("error")).take(3).collect::<Vec<_>>().join(" | ")));
    }
    Err(Fail::new("not-send-sync-clone", "fancy_regex::Regex: Send + Sync + Clone", relevant.join(" | ")))
}

/// A set of compiled patterns with the single-threaded result of every (pattern, text, call kind)
#[derive(Clone, Copy, Default)]
struct Recipe {
    ci: bool,
    limit: Option<usize>,
}

fn build_recipe(pat: &str, r: Recipe) -> Result<Regex, String> {
    let mut b = fancy_regex::RegexBuilder::new(pat);
    if r.ci {
        b.case_insensitive(true);
    }
    if let Some(l) = r.limit {
        b.backtrack_limit(l);
    }
    b.build().map_err(|e| e.to_string())
}

struct World {
    recipes: Vec<Recipe>,
    pats: Vec<String>,
    texts: Vec<String>,
    regs: Vec<Shared>,
    expected: Vec<Vec<Vec<Res>>>,
    has_delegate: Vec<bool>,
    in_flight: Vec<AtomicUsize>,
}

impl World {
    /// expectations only for the listed (pattern, text) pairs (the others stay empty and are never asked for)
    fn new_pairs(pats: Vec<String>, regs: Vec<Regex>, texts: Vec<String>, pairs: &[(usize, usize)]) -> World {
        let has_delegate = pats.iter().zip(&regs).map(|(p, r)| engine::is_vm(r) && engine::program_shape(p).map_or(false, |(d, _)| !d.is_empty())).collect();
        let mut expected: Vec<Vec<Vec<Res>>> = regs.iter().map(|_| texts.iter().map(|_| vec![]).collect()).collect();
        for &(pi, ti) in pairs {
            expected[pi][ti] = (0..NKINDS).map(|k| call(&regs[pi], &texts[ti], k)).collect();
        }
        let in_flight = (0..pats.len()).map(|_| AtomicUsize::new(0)).collect();
        World { recipes: vec![Recipe::default(); pats.len()], pats, texts, regs: regs.into_iter().map(Shared).collect(), expected, has_delegate, in_flight }
    }

    fn new(pats: Vec<String>, regs: Vec<Regex>, texts: Vec<String>) -> World {
        let has_delegate = pats.iter().zip(&regs).map(|(p, r)| engine::is_vm(r) && engine::program_shape(p).map_or(false, |(d, _)| !d.is_empty())).collect();
        let expected = regs.iter().map(|r| texts.iter().map(|t| (0..NKINDS).map(|k| call(r, t, k)).collect()).collect()).collect();
        let in_flight = (0..pats.len()).map(|_| AtomicUsize::new(0)).collect();
        World { recipes: vec![Recipe::default(); pats.len()], pats, texts, regs: regs.into_iter().map(Shared).collect(), expected, has_delegate, in_flight }
    }
}

#[derive(Default)]
struct Counters {
    overlaps: AtomicU64,
    overlaps_vm: AtomicU64,
    /// incremented after every finished call: a round in which it stands still is stuck
    progress: AtomicU64,
}

type Failure = (Value, Fail);

/// seconds without a single finished call (in any thread of the round) after which the round counts as stuck;
/// one call takes well under 0.1 s single-threaded (pattern and text sizes are bounded, catastrophic generated
/// patterns are filtered out beforehand), so this is three orders of magnitude of slack
const STUCK_SECS: u64 = 40;

/// Runs `n` threads behind a barrier. Err = the round is stuck (no thread finished a call for STUCK_SECS while
/// some have not returned); the stuck threads are leaked, the process ends when `main` returns.
fn run_threads(n: usize, counters: &Arc<Counters>, job: Arc<dyn Fn(usize) -> Option<Failure> + Send + Sync>) -> Result<Vec<Option<Failure>>, String> {
    let barrier = Arc::new(Barrier::new(n));
    let (tx, rx) = std::sync::mpsc::channel::<(usize, Option<Failure>)>();
    for i in 0..n {
        let (tx, job, barrier) = (tx.clone(), job.clone(), barrier.clone());
        std::thread::Builder::new()
            .stack_size(16 << 20)
            .spawn(move || {
                barrier.wait();
                let r = catch_unwind(AssertUnwindSafe(|| job(i))).unwrap_or_else(|e| Some((json!({"thread": i}), Fail::new("panic", "thread finishes", format!("thread panicked: {}", engine::panic_msg(e))))));
                let _ = tx.send((i, r));
            })
            .expect("spawn");
    }
    drop(tx);
    let mut out: Vec<Option<Failure>> = (0..n).map(|_| None).collect();
    let mut done = 0;
    let mut last = counters.progress.load(Ordering::SeqCst);
    let mut still = 0u64;
    while done < n {
        match rx.recv_timeout(std::time::Duration::from_secs(1)) {
            Ok((i, r)) => {
                out[i] = r;
                done += 1;
                still = 0;
            }
            Err(std::sync::mpsc::RecvTimeoutError::Timeout) => {
                let now = counters.progress.load(Ordering::SeqCst);
                if now != last {
                    last = now;
                    still = 0;
                } else {
                    still += 1;
                    if still >= STUCK_SECS {
                        return Err(format!("{} of {} threads have not returned and no thread finished a call for {} s", n - done, n, STUCK_SECS));
                    }
                }
            }
            Err(std::sync::mpsc::RecvTimeoutError::Disconnected) => break,
        }
    }
    Ok(out)
}

/// long texts are abbreviated in reported cases
fn short(t: &str) -> String {
    if t.len() <= 200 {
        t.to_string()
    } else {
        format!("{}... ({} bytes, the first character repeated)", &t[..40], t.len())
    }
}

fn fail_of(w: &World, pi: usize, ti: usize, kind: usize, mode: &str, threads: usize, round: usize, got: Res) -> Failure {
    (
        json!({"pattern": w.pats[pi], "text": short(&w.texts[ti]), "call": KIND_NAMES[kind], "mode": mode, "threads": threads, "round": round}),
        Fail::new(if matches!(got, Res::Panic(_)) { "panic" } else { "result-differs" }, format!("{:?}", w.expected[pi][ti][kind]), format!("{:?}", got)),
    )
}

/// one stress round: every thread runs its generated call sequence over the focus patterns of the world
fn stress_round(w: &Arc<World>, counters: &Arc<Counters>, focus: Vec<usize>, seqs: Vec<Vec<u32>>, round: usize) -> Result<Vec<Option<Failure>>, String> {
    let nthreads = seqs.len();
    let (w2, c2) = (w.clone(), counters.clone());
    let seqs = Arc::new(seqs);
    let job = move |ti: usize| -> Option<Failure> {
        let w = &*w2;
        let own: Vec<Regex> = focus.iter().map(|&pi| w.regs[pi].0.clone()).collect();
        for x in seqs[ti].iter() {
            let x = *x as usize;
            let fi = x % focus.len();
            let pi = focus[fi];
            let tx = (x >> 4) % w.texts.len();
            let kind = (x >> 12) % NKINDS;
            let mode = (x >> 16) % 3;
            let got = match mode {
                0 => {
                    let prev = w.in_flight[pi].fetch_add(1, Ordering::SeqCst);
                    if prev > 0 {
                        c2.overlaps.fetch_add(1, Ordering::Relaxed);
                        if w.has_delegate[pi] {
                            c2.overlaps_vm.fetch_add(1, Ordering::Relaxed);
                        }
                    }
                    let r = call(&w.regs[pi].0, &w.texts[tx], kind);
                    w.in_flight[pi].fetch_sub(1, Ordering::SeqCst);
                    r
                }
                1 => call(&own[fi], &w.texts[tx], kind),
                _ => {
                    let c = w.regs[pi].0.clone();
                    call(&c, &w.texts[tx], kind)
                }
            };
            c2.progress.fetch_add(1, Ordering::SeqCst);
            if got != w.expected[pi][tx][kind] {
                return Some(fail_of(w, pi, tx, kind, ["shared", "clone-before", "clone-concurrently"][mode], nthreads, round, got));
            }
        }
        None
    };
    run_threads(nthreads, counters, Arc::new(job))
}

/// all threads hammer one (pattern, text) pair through one shared instance (every third thread through a clone of it),
/// each thread cycling through the call kinds from a different start
fn hammer_round(w: &Arc<World>, counters: &Arc<Counters>, pi: usize, ti: usize, nthreads: usize, reps: usize, round: usize, mode: &'static str) -> Result<Vec<Option<Failure>>, String> {
    let (w2, c2) = (w.clone(), counters.clone());
    // every second round on a freshly compiled instance that no search has touched yet: the threads' first calls are
    // the instance's first searches (lazily initialised state is then initialised under contention)
    let fresh: Option<Arc<Shared>> = if round % 2 == 1 { build_recipe(&w.pats[pi], w.recipes[pi]).ok().map(|r| Arc::new(Shared(r))) } else { None };
    let job = move |k: usize| -> Option<Failure> {
        let w = &*w2;
        let shared: &Regex = fresh.as_ref().map_or(&w.regs[pi].0, |f| &f.0);
        let mine = if k % 3 == 2 { Some(shared.clone()) } else { None };
        for i in 0..reps {
            let kind = (i + k) % NKINDS;
            let got = call(mine.as_ref().unwrap_or(shared), &w.texts[ti], kind);
            c2.progress.fetch_add(1, Ordering::SeqCst);
            c2.overlaps_vm.fetch_add(1, Ordering::Relaxed);
            if got != w.expected[pi][ti][kind] {
                return Some(fail_of(w, pi, ti, kind, mode, nthreads, round, got));
            }
        }
        None
    };
    run_threads(nthreads, counters, Arc::new(job))
}

/// (pattern, text) pairs on which the iterators carry state from one search to the next (an empty match is
/// skipped, `\G` must then fail) while other threads run plain searches on the same instance
const ITER_STATE: &[(&str, &str)] = &[
    (r"\G\d*", "12a"), (r"\G(?:a|)", "aab b"), (r"(?:\Ga)*b?", "aab"), (r"\G\w*?(?=\d)|", "ab1 c"), (r"(?<=\Ka)|\Gb", "abab"), (r"\b|\G.", "é a"), (r"(?=(\w))\1?\G", "ab"), (r"\G(?>a*)(?!b)", "aaab aa"),
];

pub fn run(ctx: &RunCtx) -> Outcome {
    let mut o = Outcome::default();
    o.rule = format!("(1) corpus of {} delegated and VM-compiled patterns (with delegates, counters, atomic groups, look-arounds, back-references, \\G, \\K, conditionals) x {} texts; rounds of 2..16 threads started behind a barrier, each running a proptest-generated sequence of calls ({}) through one shared &Regex per pattern, through clones made beforehand and through clones made concurrently inside the threads; (2) after each round a hot-spot phase in which all threads hammer one VM pattern on the text that needs the most backtracks through one shared instance (and clones of it) whose backtrack limit is only a third above that need, or one of {} (pattern, text) pairs on which the iterators carry state between searches (skipped empty match, \\G), plus regexes built with RegexBuilder::case_insensitive / backtrack_limit (clones must keep the options), a \\K pattern behind a 300-alternative program and a search ending in StackOverflow on a 600000-character text (error path); every second such round runs on a freshly compiled instance whose first searches are the threads' concurrent calls; (3) rounds over freshly generated patterns: proptest byte vectors decoded into ASTs of the unrestricted grammar, kept if VM-compiled and cheap (<= 20000 backtracks on every text), three per round x 12 short texts. Every result must equal the single-threaded result computed beforehand, no call may panic, and every round must finish: a round in which no thread finishes a call for {} s while threads are still out is reported as a deadlock. Static part: a separate crate asserting Regex: Send + Sync + Clone must build. Non-trivial = a call on a shared instance of a VM pattern with >= 1 delegate that started while another thread was inside a call on the same instance (measured with an atomic in-flight counter). Distinct = distinct (round, thread, step).", PATTERNS.len(), TEXTS.len(), KIND_NAMES.join(", "), ITER_STATE.len() + 8, STUCK_SECS);
    o.assumptions = vec![
        "the thread schedule is the operating system's: this is the one property where generated-input search is weak; the check can only report a violation it happens to provoke".into(),
        "regex-automata's internal pool cannot be put under a controlled scheduler with the installed tooling".into(),
    ];
    o.required_classes = vec!["mode:shared".into(), "mode:clone-before".into(), "mode:clone-concurrently".into(), "overlap:shared-VM-with-delegate".into(), "mode:iterator-state".into(), "generated:rounds".into()];
    // static part (not repeated by the ThreadSanitizer child)
    match if std::env::var("FRV_C18_TSAN_INNER").is_ok() { Ok(()) } else { static_check() } {
        Ok(()) => o.stats.class("static:Send+Sync+Clone"),
        Err(f) if f.kind == "infra" => {
            o.infra_error = Some(format!("static check could not run: {}", f.actual));
            return o;
        }
        Err(f) => {
            o.violations.push(Violation { case: json!({"static": true}), fail: f });
            return o;
        }
    }
    // single-threaded expectations
    let mut regs: Vec<Regex> = vec![];
    for p in PATTERNS {
        // a limit not far above what the heaviest single-threaded search of the corpus needs (~15k backtracks)
        let built = if p.contains("-\\1!") { fancy_regex::RegexBuilder::new(p).backtrack_limit(20_000).build() } else { Regex::new(p) };
        match built {
            Ok(r) => regs.push(r),
            Err(e) => {
                o.infra_error = Some(format!("corpus pattern {:?} does not compile: {}", p, e));
                return o;
            }
        }
    }
    let world = Arc::new(World::new(PATTERNS.iter().map(|s| s.to_string()).collect(), regs, TEXTS.iter().map(|s| s.to_string()).collect()));
    // hot spots: per VM pattern the text needing the most backtracks, and a regex whose backtrack
    // limit is only a third above that need (so that searches disturbing each other's accounting show);
    // plus the iterator-state pairs
    let mut hot_pats = vec![];
    let mut hot_regs = vec![];
    let mut hot_texts: Vec<String> = vec![];
    let mut hot_pairs: Vec<(usize, usize, &'static str)> = vec![];
    let mut hot_recipes: Vec<Recipe> = vec![];
    for (pi, p) in PATTERNS.iter().enumerate() {
        if !engine::is_vm(&world.regs[pi].0) {
            continue;
        }
        let mut best = (0u64, 0usize);
        for (ti, t) in TEXTS.iter().enumerate() {
            fancy_regex::verif_hooks::reset_run_stats();
            let _ = world.regs[pi].0.find(t);
            let b = fancy_regex::verif_hooks::last_run_stats().backtracks;
            if b > best.0 {
                best = (b, ti);
            }
        }
        if best.0 < 8 {
            continue;
        }
        // find_iter / replace run several searches; the limit applies to each one separately
        let limit = (best.0 + best.0 / 3 + 1) as usize;
        if let Ok(r) = fancy_regex::RegexBuilder::new(p).backtrack_limit(limit).build() {
            hot_pairs.push((hot_pats.len(), hot_texts.len(), "hot-spot (shared instance with a tight backtrack limit)"));
            hot_pats.push(p.to_string());
            hot_regs.push(r);
            hot_recipes.push(Recipe { ci: false, limit: Some(limit) });
            hot_texts.push(TEXTS[best.1].to_string());
        }
    }
    // regexes built through the builder (clones must carry the options), a `\\K` pattern whose match start needs the
    // end-of-match fix-up behind a long program, and a search that ends in StackOverflow (error path)
    let long_k = format!("(?=ab\\K)a(?:{})?", (0..300).map(|i| format!("x{}", i)).collect::<Vec<_>>().join("|"));
    let big_text = "a".repeat(600_000);
    let extra: Vec<(String, String, Recipe, &'static str)> = vec![
        ("(?<=a)b+\\b".to_string(), "ab AB aBB".to_string(), Recipe { ci: true, limit: None }, "iterator-state / builder options (case_insensitive; clones must keep it)"),
        ("(\\w+) \\1".to_string(), "Foo fOO bar".to_string(), Recipe { ci: true, limit: Some(50_000) }, "iterator-state / builder options (case_insensitive; clones must keep it)"),
        ("é+(?=x)".to_string(), "ÉéX éx".to_string(), Recipe { ci: true, limit: None }, "iterator-state / builder options (case_insensitive; clones must keep it)"),
        (long_k, "ab abx7 ab".to_string(), Recipe::default(), "iterator-state / first searches of a fresh instance (\\K start fix-up)"),
        ("((?:a|b)*)(?!c)".to_string(), big_text, Recipe::default(), "iterator-state / error path (searches ending in StackOverflow, then more searches)"),
        // wholly delegated patterns whose later searches depend on what precedes the search position
        ("(?m)^\\w".to_string(), "ab\ncd ef\ngh".to_string(), Recipe::default(), "iterator-state / delegated pattern with start-of-line context"),
        ("(?m)^a".to_string(), "aaaaaaaaaaaa\n".repeat(200), Recipe::default(), "iterator-state / delegated pattern with start-of-line context"),
        ("\\b\\w|^x".to_string(), "ab cd ef".to_string(), Recipe::default(), "iterator-state / delegated pattern with start-of-line context"),
    ];
    for (p, t, rec, mode) in extra {
        match build_recipe(&p, rec) {
            Ok(r) => {
                hot_pairs.push((hot_pats.len(), hot_texts.len(), mode));
                hot_pats.push(p);
                hot_regs.push(r);
                hot_recipes.push(rec);
                hot_texts.push(t);
            }
            Err(e) => {
                o.infra_error = Some(format!("pattern {:?} does not compile: {}", p, e));
                return o;
            }
        }
    }
    for (p, t) in ITER_STATE {
        match Regex::new(p) {
            Ok(r) => {
                hot_pairs.push((hot_pats.len(), hot_texts.len(), "iterator-state (iterators skipping empty matches next to plain searches on one instance)"));
                hot_pats.push(p.to_string());
                hot_regs.push(r);
                hot_recipes.push(Recipe::default());
                hot_texts.push(t.to_string());
            }
            Err(e) => {
                o.infra_error = Some(format!("iterator-state pattern {:?} does not compile: {}", p, e));
                return o;
            }
        }
    }
    let hot_world = Arc::new({
        let pairs: Vec<(usize, usize)> = hot_pairs.iter().map(|p| (p.0, p.1)).collect();
        let mut w = World::new_pairs(hot_pats, hot_regs, hot_texts, &pairs);
        w.recipes = hot_recipes;
        w
    });
    let counters = Arc::new(Counters::default());
    let inner_tsan = std::env::var("FRV_C18_TSAN_INNER").is_ok();
    let rounds = match std::env::var("FRV_C18_ROUNDS").ok().and_then(|r| r.parse().ok()) {
        Some(r) => r,
        None => if ctx.quick() { 100 } else { 2000 },
    };
    let steps = if ctx.quick() { 400 } else { 800 };
    let gen_texts: Vec<String> = ["", "a", "ab", "aab", "abab", "aaaa", "ba", "éa", "a\nb", "abcabc", "aabbaabb", "ab ab ab"].iter().map(|s| s.to_string()).collect();
    let rcfg = crate::gen::RandCfg::wild();
    let mut first_fail: Option<Failure> = None;
    let mut evals = 0u64;
    let mut nontrivial = 0u64;
    let mut gen_pats_used = 0u64;
    let mut gen_skipped = 0u64;
    let stuck = |what: String, case: Value| -> Failure { (case, Fail::new("deadlock", "every thread finishes its calls", what)) };
    'rounds: for round in 0..rounds {
        let nthreads = 2 + (round % 15) as usize;
        // per-thread call sequences from the library's generator
        let config = Config { failure_persistence: None, ..Config::default() };
        let rng = TestRng::from_seed(RngAlgorithm::ChaCha, &ctx.subseed("schedule", round as u64));
        let mut runner = TestRunner::new_with_rng(config, rng);
        let strat = proptest::collection::vec(proptest::collection::vec(proptest::num::u32::ANY, steps), nthreads);
        let seqs: Vec<Vec<u32>> = strat.new_tree(&mut runner).expect("generate").current();
        // a round concentrates on a few patterns so that calls really overlap
        let focus: Vec<usize> = (0..3).map(|k| (seqs[0][k] as usize) % PATTERNS.len()).collect();
        let before = counters.overlaps_vm.load(Ordering::Relaxed);
        let focus_names: Vec<&str> = focus.iter().map(|i| PATTERNS[*i]).collect();
        match stress_round(&world, &counters, focus.clone(), seqs, round) {
            Err(what) => {
                first_fail = Some(stuck(what, json!({"round": round, "threads": nthreads, "mode": "corpus stress", "focus_patterns": focus_names})));
                break 'rounds;
            }
            Ok(fails) => {
                evals += (nthreads * steps) as u64;
                nontrivial += counters.overlaps_vm.load(Ordering::Relaxed) - before;
                if let Some(f) = fails.into_iter().flatten().next() {
                    first_fail = Some(f);
                    break 'rounds;
                }
            }
        }
        // hot-spot round and iterator-state round
        let hots: Vec<&(usize, usize, &'static str)> = hot_pairs.iter().filter(|p| p.2.starts_with("hot")).collect();
        let iters: Vec<&(usize, usize, &'static str)> = hot_pairs.iter().filter(|p| !p.2.starts_with("hot")).collect();
        let mut todo = vec![*iters[round % iters.len()]];
        if !hots.is_empty() {
            todo.push(*hots[round % hots.len()]);
        }
        for (pi, ti, mode) in todo {
            let reps = if hot_world.texts[ti].len() > 100_000 { 3usize } else if mode.contains("delegated pattern") { 200usize } else { 60usize };
            match hammer_round(&hot_world, &counters, pi, ti, nthreads, reps, round, mode) {
                Err(what) => {
                    first_fail = Some(stuck(what, json!({"round": round, "threads": nthreads, "mode": mode, "pattern": hot_world.pats[pi], "text": short(&hot_world.texts[ti])})));
                    break 'rounds;
                }
                Ok(fails) => {
                    evals += (nthreads * reps) as u64;
                    nontrivial += (nthreads * reps) as u64;
                    o.stats.class_n(if mode.starts_with("hot") { "mode:hot-spot" } else { "mode:iterator-state" }, (nthreads * reps) as u64);
                    if let Some(f) = fails.into_iter().flatten().next() {
                        first_fail = Some(f);
                        break 'rounds;
                    }
                }
            }
        }
        // generated round: three fresh VM patterns from the byte decoder of the unrestricted grammar
        {
            let rng = TestRng::from_seed(RngAlgorithm::ChaCha, &ctx.subseed("generated", round as u64));
            let mut runner = TestRunner::new_with_rng(Config { failure_persistence: None, ..Config::default() }, rng);
            let bstrat = proptest::collection::vec(proptest::num::u8::ANY, 0..64);
            let mut pats = vec![];
            let mut regs = vec![];
            for _ in 0..40 {
                if pats.len() == 3 {
                    break;
                }
                let bytes = bstrat.new_tree(&mut runner).expect("generate").current();
                let pat = crate::gen::decode_pattern(&rcfg, &bytes).to_pattern();
                let re = match engine::build(&pat) {
                    engine::Built::Ok(r) if engine::is_vm(&r) => r,
                    _ => {
                        gen_skipped += 1;
                        continue;
                    }
                };
                // cheap on every text (the count is deterministic, so it is the same in the threads)
                let cheap = gen_texts.iter().all(|t| {
                    fancy_regex::verif_hooks::reset_run_stats();
                    let _ = catch_unwind(AssertUnwindSafe(|| re.find(t).is_ok()));
                    fancy_regex::verif_hooks::last_run_stats().backtracks <= 20_000
                });
                if !cheap || pats.contains(&pat) {
                    gen_skipped += 1;
                    continue;
                }
                pats.push(pat);
                regs.push(re);
            }
            if !pats.is_empty() {
                gen_pats_used += pats.len() as u64;
                let gsteps = steps / 2;
                let strat = proptest::collection::vec(proptest::collection::vec(proptest::num::u32::ANY, gsteps), nthreads);
                let seqs: Vec<Vec<u32>> = strat.new_tree(&mut runner).expect("generate").current();
                let gw = Arc::new(World::new(pats.clone(), regs, gen_texts.clone()));
                let before = counters.overlaps_vm.load(Ordering::Relaxed);
                match stress_round(&gw, &counters, (0..pats.len()).collect(), seqs, round) {
                    Err(what) => {
                        first_fail = Some(stuck(what, json!({"round": round, "threads": nthreads, "mode": "generated patterns", "focus_patterns": pats})));
                        break 'rounds;
                    }
                    Ok(fails) => {
                        evals += (nthreads * gsteps) as u64;
                        nontrivial += counters.overlaps_vm.load(Ordering::Relaxed) - before;
                        o.stats.class("generated:rounds");
                        if let Some((mut case, f)) = fails.into_iter().flatten().next() {
                            case["mode"] = json!(format!("generated patterns / {}", case["mode"].as_str().unwrap_or("")));
                            first_fail = Some((case, f));
                            break 'rounds;
                        }
                    }
                }
                if o.stats.samples.len() < 6 && round % 20 == 1 {
                    o.stats.sample(json!({"round": round, "threads": nthreads, "generated_patterns": pats, "steps_per_thread": gsteps}));
                }
            }
        }
        if o.stats.samples.len() < 6 && round % 20 == 0 {
            o.stats.sample(json!({"round": round, "threads": nthreads, "focus_patterns": focus_names, "steps_per_thread": steps}));
        }
    }
    o.stats.evaluations = evals;
    o.stats.patterns = PATTERNS.len() as u64 + hot_world.pats.len() as u64 + gen_pats_used;
    o.stats.class_n("mode:shared", evals / 3);
    o.stats.class_n("mode:clone-before", evals / 3);
    o.stats.class_n("mode:clone-concurrently", evals / 3);
    o.stats.class_n("overlap:any-shared", counters.overlaps.load(Ordering::Relaxed));
    o.stats.class_n("overlap:shared-VM-with-delegate", counters.overlaps_vm.load(Ordering::Relaxed));
    o.stats.class_n("generated:patterns", gen_pats_used);
    *o.stats.skipped.entry("generated:not-VM-or-not-cheap".to_string()).or_insert(0) += gen_skipped;
    // every overlapping call is a distinct (round, thread, step)
    o.stats.nontrivial_add(hash64(&"overlaps"), nontrivial.min(u32::MAX as u64) as u32);
    o.generators.push(json!({"mode": "stress", "rounds": rounds, "steps_per_thread": steps, "threads": "2..16", "seed": ctx.seed, "generated_patterns": gen_pats_used, "generated_draws_skipped": gen_skipped}));
    if let Some((case, fail)) = first_fail {
        o.violations.push(Violation { case, fail });
    }
    if !ctx.quick() && !inner_tsan && o.violations.is_empty() {
        // ThreadSanitizer: the same stress (fewer rounds) in a build instrumented with -Zsanitizer=thread,
        // so that an unsynchronised shared cache is reported without needing an unlucky interleaving
        match tsan_run(ctx) {
            Ok((reports, first, info)) => {
                o.extra.insert("tsan".into(), info);
                if reports > 0 {
                    o.violations.push(Violation { case: json!({"tsan": true}), fail: Fail::new("data-race", "no data race reported by ThreadSanitizer", first) });
                }
            }
            Err(e) => {
                o.extra.insert("tsan".into(), json!({"unavailable": e}));
            }
        }
    }
    o
}

fn tsan_run(ctx: &RunCtx) -> Result<(usize, String, Value), String> {
    let dir = format!("{}/harness", verif_dir());
    let target = format!("{}/harness/target/tsan", verif_dir());
    let build = Command::new("cargo")
        .args(["+nightly", "build", "-Zbuild-std", "--target", "x86_64-unknown-linux-gnu", "--release", "--offline", "--target-dir", &target])
        .current_dir(&dir)
        .env("RUSTFLAGS", "-Zsanitizer=thread")
        .env("CARGO_NET_OFFLINE", "true")
        .output()
        .map_err(|e| format!("cannot run cargo: {}", e))?;
    if !build.status.success() {
        return Err(format!("ThreadSanitizer build failed: {}", String::from_utf8_lossy(&build.stderr).lines().filter(|l| l.starts_with("error")).take(3).collect::<Vec<_>>().join(" | ")));
    }
    let bin = format!("{}/x86_64-unknown-linux-gnu/release/frv", target);
    let out = Command::new(&bin)
        .args(["C18", "thorough"])
        .env("FRV_C18_TSAN_INNER", "1")
        .env("FRV_C18_ROUNDS", "40")
        .env("VERIF_SEED", ctx.seed.to_string())
        .env("VERIF_DIR", format!("{}/harness/target/tsan-scratch", verif_dir()))
        .env("TSAN_OPTIONS", "halt_on_error=0 report_thread_leaks=0 exitcode=0")
        .output()
        .map_err(|e| format!("cannot run the instrumented binary: {}", e))?;
    let err = String::from_utf8_lossy(&out.stderr).to_string();
    let so = String::from_utf8_lossy(&out.stdout).to_string();
    let races: Vec<&str> = err.split("WARNING: ThreadSanitizer: ").skip(1).filter(|r| r.starts_with("data race")).collect();
    let first = races.first().map(|r| r.lines().take(14).collect::<Vec<_>>().join(" | ")).unwrap_or_default();
    let inner_violation = so.lines().any(|l| l.starts_with("VIOLATION"));
    Ok((races.len() + inner_violation as usize, if first.is_empty() && inner_violation { so.lines().find(|l| l.starts_with("violation")).unwrap_or("").to_string() } else { first }, json!({"rounds": 40, "data_race_reports": races.len(), "exit": out.status.code()})))
}

pub fn replay(ctx: &RunCtx, case: &Value) -> Result<Option<Fail>, String> {
    if case.get("static").and_then(|s| s.as_bool()).unwrap_or(false) {
        return Ok(static_check().err());
    }
    // a concurrency failure cannot be replayed deterministically: re-run the stress rounds
    let o = run(ctx);
    Ok(o.violations.into_iter().next().map(|v| v.fail))
}
