//! C18: a compiled regex can be used from many threads at once. Stress + differential oracle
//! (single-threaded results computed beforehand) + compile-time Send/Sync/Clone assertion.
use crate::core::*;
use crate::engine;
use crate::refm::Span;
use fancy_regex::Regex;
use proptest::strategy::{Strategy, ValueTree};
use proptest::test_runner::{Config, RngAlgorithm, TestRng, TestRunner};
use serde_json::{json, Value};
use std::panic::{catch_unwind, AssertUnwindSafe};
use std::process::Command;
use std::sync::atomic::{AtomicU64, AtomicUsize, Ordering};
use std::sync::{Arc, Barrier};

pub const PATTERNS: &[&str] = &[
    // delegated as a whole
    r"\w+", r"(a+)(b*)", r"[a-c]+|é", r"(?i)abc", r"a{2,3}?", r"(?m)^a.*$", r"\d+-\d+", r"(x)?(y)?z",
    // VM with delegates
    r"(\w+) \1", r"\b\w+(?=!)", r"(?<=a)b+", r"(?<!a)b\w*", r"(?>a+)ab|a\w", r"(a|ab)(c|bcd)\2?", r"\w+(?!\d)\b", r"(?=(\w+))\1:", r"(?:(\w)\1)+", r"\G\d", r"a\Kb+", r"(?((?=a))ab|\w+)", r"(?>(\w+)=(\d+));", r"(?=(\w+)=(\d+))\w", r"(?<=(\w)(\d))x|(\w)=", r"(\w+)-\1!",
    r"(a)?(?(1)b|c)\w", r"(?:a|b)*+c", r"(?i:ab)\b|(?<=c)d", r"((?:a|b)+?)\1", r"(?<n>\w)\k<n>+", r"^(?:(?!ab).)*$", r"(\d+)(?=(\D+))\2", r"(?<=\d{2})x|y(?!z)",
    // VM without delegates / counters / atomic
    r"(?>a*)b", r"(?:a{2}){1,3}+b", r"(a*)*?b\1", r"(?=a)(?!ab)a.", r"(.)(.)\2\1", r"(?:(a)|(b)|(c))+\3?", r"\Ba\B", r"(?<=(?<!a)b)c",
];

pub const TEXTS: &[&str] = &[
    "", "a", "ab", "abc", "aab aab", "foo foo bar bar", "so fancy! even with! iterators!", "aaab", "ababab", "abcbcd", "12-34 56-7", "a1 b22 c333", "xyz z yz", "hello hello", "aabb ccdd",
    "ABC abc AbC", "a\nab\nabc", "éé aé éa", "1122 33", "ab:ab: cd:", "bcbc", "abba cddc", "yz y", "12x y", "aaaaaaaaaaaaaaaaaaaaaaab", "aaaaaaaaaaaaaaaaaaaaaaaa", "b", "cab", "x", "aXbXc", "key=12; k2=345; zz=6;", "a1x b2x c=", "abcdefghijklmnopqrstuvwxyzabcdefghijklmnopqrstuvwxyzabcdefghijklmnopqrstuvwxyz-abc?",
];

#[derive(Clone, Debug, PartialEq, Eq)]
enum Res {
    Caps(Option<Vec<Span>>),
    Iter(Vec<(usize, usize)>, Option<String>),
    Repl(Result<String, String>),
    Panic(String),
}

fn call(re: &Regex, text: &str, kind: usize) -> Res {
    match catch_unwind(AssertUnwindSafe(|| match kind % 3 {
        0 => match re.captures(text) {
            Ok(c) => Res::Caps(c.map(|c| engine::caps_vec(&c))),
            Err(e) => Res::Repl(Err(engine::err_kind(&e))),
        },
        1 => match engine::find_iter_spans(re, text, text.len() + 3) {
            engine::Out::Val((v, e)) => Res::Iter(v, e),
            other => Res::Panic(other.show()),
        },
        _ => Res::Repl(re.try_replacen(text, 0, "<$0|$1>").map(|c| c.into_owned()).map_err(|e| engine::err_kind(&e))),
    })) {
        Ok(r) => r,
        Err(e) => Res::Panic(engine::panic_msg(e)),
    }
}

/// lets the stress code share a `Regex` across threads even if the type were not `Sync`
/// (that static part of the property is judged by the separate harness_static crate)
struct Shared(Regex);
unsafe impl Sync for Shared {}
unsafe impl Send for Shared {}

fn static_check() -> Result<(), Fail> {
    let run = |dir: &str, target: &str| {
        Command::new("cargo").args(["build", "--offline", "--quiet"]).current_dir(dir).env("CARGO_NET_OFFLINE", "true").env("CARGO_TARGET_DIR", target).output()
    };
    let stat = run(&format!("{}/harness_static", verif_dir()), &format!("{}/harness/target/static", verif_dir())).map_err(|e| Fail::new("infra", "cargo runs", e.to_string()))?;
    if stat.status.success() {
        return Ok(());
    }
    let err = String::from_utf8_lossy(&stat.stderr).to_string();
    // distinguish "the crate itself does not build" (not our verdict) from "Regex is not Send + Sync + Clone"
    let relevant: Vec<&str> = err.lines().filter(|l| l.contains("cannot be sent") || l.contains("cannot be shared") || l.contains("Send") || l.contains("Sync") || l.contains("Clone") || l.contains("E0277")).take(6).collect();
    if relevant.is_empty() {
        return Err(Fail::new("infra", "harness_static builds", err.lines().filter(|l| l.starts_with("error")).take(3).collect::<Vec<_>>().join(" | ")));
    }
    Err(Fail::new("not-send-sync-clone", "fancy_regex::Regex: Send + Sync + Clone", relevant.join(" | ")))
}

pub fn run(ctx: &RunCtx) -> Outcome {
    let mut o = Outcome::default();
    o.rule = format!("corpus of {} delegated and VM-compiled patterns (with delegates, counters, atomic groups, look-arounds, back-references, \\G, \\K, conditionals) x {} texts; rounds of 2..16 threads started behind a barrier, each running a proptest-generated sequence of calls (captures, find_iter, try_replacen with group expansion) through one shared &Regex per pattern, through clones made beforehand and through clones made concurrently inside the threads; after each round a hot-spot phase in which all threads hammer one VM pattern on the text that needs the most backtracks, through one shared instance (and clones of it) whose backtrack limit is only a third above that need; every result must equal the single-threaded result computed beforehand, no call may panic, all threads must finish (watchdog => inconclusive). Static part: a separate crate asserting Regex: Send + Sync + Clone must build. Non-trivial = a call on a shared instance of a VM pattern with >= 1 delegate that started while another thread was inside a call on the same instance (measured with an atomic in-flight counter). Distinct = distinct (round, thread, step).", PATTERNS.len(), TEXTS.len());
    o.assumptions = vec![
        "the thread schedule is the operating system's: this is the one property where generated-input search is weak; the check can only report a violation it happens to provoke".into(),
        "regex-automata's internal pool cannot be put under a controlled scheduler with the installed tooling".into(),
    ];
    o.required_classes = vec!["mode:shared".into(), "mode:clone-before".into(), "mode:clone-concurrently".into(), "overlap:shared-VM-with-delegate".into()];
    // static part (not repeated by the ThreadSanitizer child)
    match if std::env::var("FRV_C18_TSAN_INNER").is_ok() { Ok(()) } else { static_check() } {
        Ok(()) => o.stats.class("static:Send+Sync+Clone"),
        Err(f) if f.kind == "infra" => {
            o.infra_error = Some(format!("static check could not run: {}", f.actual));
            return o;
        }
        Err(f) => {
            o.violations.push(Violation { case: json!({"static": true}), fail: f });
            return o;
        }
    }
    // single-threaded expectations
    let mut regs: Vec<Arc<Shared>> = vec![];
    let mut has_delegate = vec![];
    for p in PATTERNS {
        // a limit not far above what the heaviest single-threaded search of the corpus needs (~15k backtracks)
        let built = if p.contains("-\\1!") { fancy_regex::RegexBuilder::new(p).backtrack_limit(20_000).build() } else { Regex::new(p) };
        match built {
            Ok(r) => {
                has_delegate.push(engine::is_vm(&r) && engine::program_shape(p).map_or(false, |(d, _)| !d.is_empty()));
                regs.push(Arc::new(Shared(r)));
            }
            Err(e) => {
                o.infra_error = Some(format!("corpus pattern {:?} does not compile: {}", p, e));
                return o;
            }
        }
    }
    let expected: Vec<Vec<[Res; 3]>> = regs.iter().map(|r| TEXTS.iter().map(|t| [call(&r.0, t, 0), call(&r.0, t, 1), call(&r.0, t, 2)]).collect()).collect();
    // hot spots: per VM pattern the text needing the most backtracks, and a regex whose backtrack
    // limit is only a third above that need (so that searches disturbing each other's accounting show)
    let mut hot: Vec<(usize, usize, Arc<Shared>, [Res; 3])> = vec![];
    for (pi, p) in PATTERNS.iter().enumerate() {
        if !engine::is_vm(&regs[pi].0) {
            continue;
        }
        let mut best = (0u64, 0usize);
        for (ti, t) in TEXTS.iter().enumerate() {
            fancy_regex::verif_hooks::reset_run_stats();
            let _ = regs[pi].0.find(t);
            let b = fancy_regex::verif_hooks::last_run_stats().backtracks;
            if b > best.0 {
                best = (b, ti);
            }
        }
        if best.0 < 8 {
            continue;
        }
        // find_iter / replace run several searches; the limit applies to each one separately
        let limit = (best.0 + best.0 / 3 + 1) as usize;
        if let Ok(r) = fancy_regex::RegexBuilder::new(p).backtrack_limit(limit).build() {
            let t = TEXTS[best.1];
            let exp = [call(&r, t, 0), call(&r, t, 1), call(&r, t, 2)];
            hot.push((pi, best.1, Arc::new(Shared(r)), exp));
        }
    }
    let in_flight: Vec<AtomicUsize> = (0..PATTERNS.len()).map(|_| AtomicUsize::new(0)).collect();
    let overlaps = AtomicU64::new(0);
    let overlaps_vm = AtomicU64::new(0);
    let inner_tsan = std::env::var("FRV_C18_TSAN_INNER").is_ok();
    let rounds = match std::env::var("FRV_C18_ROUNDS").ok().and_then(|r| r.parse().ok()) {
        Some(r) => r,
        None => if ctx.quick() { 120 } else { 2500 },
    };
    let steps = if ctx.quick() { 400 } else { 800 };
    let mut first_fail: Option<(Value, Fail)> = None;
    let mut evals = 0u64;
    let mut nontrivial = 0u64;
    for round in 0..rounds {
        let nthreads = 2 + (round % 15) as usize;
        // per-thread call sequences from the library's generator
        let config = Config { failure_persistence: None, ..Config::default() };
        let rng = TestRng::from_seed(RngAlgorithm::ChaCha, &ctx.subseed("schedule", round as u64));
        let mut runner = TestRunner::new_with_rng(config, rng);
        let strat = proptest::collection::vec(proptest::collection::vec(proptest::num::u32::ANY, steps), nthreads);
        let seqs: Vec<Vec<u32>> = strat.new_tree(&mut runner).expect("generate").current();
        // a round concentrates on a few patterns so that calls really overlap
        let focus: Vec<usize> = (0..3).map(|k| ((seqs[0][k] as usize) % PATTERNS.len())).collect();
        let barrier = Barrier::new(nthreads);
        let before = overlaps_vm.load(Ordering::Relaxed);
        let fails: Vec<Option<(Value, Fail)>> = std::thread::scope(|s| {
            let handles: Vec<_> = (0..nthreads)
                .map(|ti| {
                    let seq = &seqs[ti];
                    let (regs, expected, in_flight, overlaps, overlaps_vm, barrier, focus, has_delegate) = (&regs, &expected, &in_flight, &overlaps, &overlaps_vm, &barrier, &focus, &has_delegate);
                    s.spawn(move || {
                        let own: Vec<Regex> = focus.iter().map(|&pi| regs[pi].0.clone()).collect();
                        barrier.wait();
                        for (step, x) in seq.iter().enumerate() {
                            let x = *x as usize;
                            let fi = x % focus.len();
                            let pi = focus[fi];
                            let ti_text = (x >> 4) % TEXTS.len();
                            let kind = (x >> 12) % 3;
                            let mode = (x >> 16) % 3;
                            let got = match mode {
                                0 => {
                                    let prev = in_flight[pi].fetch_add(1, Ordering::SeqCst);
                                    if prev > 0 {
                                        overlaps.fetch_add(1, Ordering::Relaxed);
                                        if has_delegate[pi] {
                                            overlaps_vm.fetch_add(1, Ordering::Relaxed);
                                        }
                                    }
                                    let r = call(&regs[pi].0, TEXTS[ti_text], kind);
                                    in_flight[pi].fetch_sub(1, Ordering::SeqCst);
                                    r
                                }
                                1 => call(&own[fi], TEXTS[ti_text], kind),
                                _ => {
                                    let c = regs[pi].0.clone();
                                    call(&c, TEXTS[ti_text], kind)
                                }
                            };
                            if got != expected[pi][ti_text][kind] {
                                let call_name = ["captures", "find_iter", "try_replacen"][kind];
                                let mode_name = ["shared", "clone-before", "clone-concurrently"][mode];
                                return Some((
                                    json!({"pattern": PATTERNS[pi], "text": TEXTS[ti_text], "call": call_name, "mode": mode_name, "threads": nthreads, "round": round, "step": step}),
                                    Fail::new(if matches!(got, Res::Panic(_)) { "panic" } else { "result-differs" }, format!("{:?}", expected[pi][ti_text][kind]), format!("{:?}", got)),
                                ));
                            }
                        }
                        None
                    })
                })
                .collect();
            handles.into_iter().map(|h| h.join().unwrap_or_else(|_| Some((json!({"round": round}), Fail::new("panic", "thread finishes", "thread panicked")))))
                .collect()
        });
        evals += (nthreads * steps) as u64;
        nontrivial += overlaps_vm.load(Ordering::Relaxed) - before;
        // hot-spot round: all threads hammer one (pattern, heaviest text) pair on one shared instance
        if !hot.is_empty() && fails.iter().all(|f| f.is_none()) {
            let (pi, ti, re, exp) = &hot[round % hot.len()];
            let barrier = Barrier::new(nthreads);
            let reps = 60usize;
            let hf: Vec<Option<(Value, Fail)>> = std::thread::scope(|s| {
                let hs: Vec<_> = (0..nthreads)
                    .map(|k| {
                        let (re, exp, barrier, overlaps_vm) = (re, exp, &barrier, &overlaps_vm);
                        s.spawn(move || {
                            let mine = if k % 3 == 2 { Some(re.0.clone()) } else { None };
                            barrier.wait();
                            for i in 0..reps {
                                let kind = (i + k) % 3;
                                let got = call(mine.as_ref().unwrap_or(&re.0), TEXTS[*ti], kind);
                                overlaps_vm.fetch_add(1, Ordering::Relaxed);
                                if got != exp[kind] {
                                    let call_name = ["captures", "find_iter", "try_replacen"][kind];
                                    return Some((
                                        json!({"pattern": PATTERNS[*pi], "text": TEXTS[*ti], "call": call_name, "mode": "hot-spot (shared instance with a tight backtrack limit)", "threads": nthreads, "round": round}),
                                        Fail::new(if matches!(got, Res::Panic(_)) { "panic" } else { "result-differs" }, format!("{:?}", exp[kind]), format!("{:?}", got)),
                                    ));
                                }
                            }
                            None
                        })
                    })
                    .collect();
                hs.into_iter().map(|h| h.join().unwrap_or(None)).collect()
            });
            evals += (nthreads * reps) as u64;
            nontrivial += (nthreads * reps) as u64;
            o.stats.class_n("mode:hot-spot", (nthreads * reps) as u64);
            if let Some(f) = hf.into_iter().flatten().next() {
                first_fail = Some(f);
                break;
            }
        }
        if let Some(f) = fails.into_iter().flatten().next() {
            first_fail = Some(f);
            break;
        }
        if o.stats.samples.len() < 3 && round % 20 == 0 {
            o.stats.sample(json!({"round": round, "threads": nthreads, "focus_patterns": focus.iter().map(|i| PATTERNS[*i]).collect::<Vec<_>>(), "steps_per_thread": steps}));
        }
    }
    o.stats.evaluations = evals;
    o.stats.patterns = PATTERNS.len() as u64;
    o.stats.class_n("mode:shared", evals / 3);
    o.stats.class_n("mode:clone-before", evals / 3);
    o.stats.class_n("mode:clone-concurrently", evals / 3);
    o.stats.class_n("overlap:any-shared", overlaps.load(Ordering::Relaxed));
    o.stats.class_n("overlap:shared-VM-with-delegate", overlaps_vm.load(Ordering::Relaxed));
    // every overlapping call is a distinct (round, thread, step)
    o.stats.nontrivial_add(hash64(&"overlaps"), nontrivial.min(u32::MAX as u64) as u32);
    o.generators.push(json!({"mode": "stress", "rounds": rounds, "steps_per_thread": steps, "threads": "2..16", "seed": ctx.seed}));
    if let Some((case, fail)) = first_fail {
        o.violations.push(Violation { case, fail });
    }
    if !ctx.quick() && !inner_tsan && o.violations.is_empty() {
        // ThreadSanitizer: the same stress (fewer rounds) in a build instrumented with -Zsanitizer=thread,
        // so that an unsynchronised shared cache is reported without needing an unlucky interleaving
        match tsan_run(ctx) {
            Ok((reports, first, info)) => {
                o.extra.insert("tsan".into(), info);
                if reports > 0 {
                    o.violations.push(Violation { case: json!({"tsan": true}), fail: Fail::new("data-race", "no data race reported by ThreadSanitizer", first) });
                }
            }
            Err(e) => {
                o.extra.insert("tsan".into(), json!({"unavailable": e}));
            }
        }
    }
    o
}

fn tsan_run(ctx: &RunCtx) -> Result<(usize, String, Value), String> {
    let dir = format!("{}/harness", verif_dir());
    let target = format!("{}/harness/target/tsan", verif_dir());
    let build = Command::new("cargo")
        .args(["+nightly", "build", "-Zbuild-std", "--target", "x86_64-unknown-linux-gnu", "--release", "--offline", "--target-dir", &target])
        .current_dir(&dir)
        .env("RUSTFLAGS", "-Zsanitizer=thread")
        .env("CARGO_NET_OFFLINE", "true")
        .output()
        .map_err(|e| format!("cannot run cargo: {}", e))?;
    if !build.status.success() {
        return Err(format!("ThreadSanitizer build failed: {}", String::from_utf8_lossy(&build.stderr).lines().filter(|l| l.starts_with("error")).take(3).collect::<Vec<_>>().join(" | ")));
    }
    let bin = format!("{}/x86_64-unknown-linux-gnu/release/frv", target);
    let out = Command::new(&bin)
        .args(["C18", "thorough"])
        .env("FRV_C18_TSAN_INNER", "1")
        .env("FRV_C18_ROUNDS", "40")
        .env("VERIF_SEED", ctx.seed.to_string())
        .env("VERIF_DIR", format!("{}/harness/target/tsan-scratch", verif_dir()))
        .env("TSAN_OPTIONS", "halt_on_error=0 report_thread_leaks=0 exitcode=0")
        .output()
        .map_err(|e| format!("cannot run the instrumented binary: {}", e))?;
    let err = String::from_utf8_lossy(&out.stderr).to_string();
    let so = String::from_utf8_lossy(&out.stdout).to_string();
    let races: Vec<&str> = err.split("WARNING: ThreadSanitizer: ").skip(1).filter(|r| r.starts_with("data race")).collect();
    let first = races.first().map(|r| r.lines().take(14).collect::<Vec<_>>().join(" | ")).unwrap_or_default();
    let inner_violation = so.lines().any(|l| l.starts_with("VIOLATION"));
    Ok((races.len() + inner_violation as usize, if first.is_empty() && inner_violation { so.lines().find(|l| l.starts_with("violation")).unwrap_or("").to_string() } else { first }, json!({"rounds": 40, "data_race_reports": races.len(), "exit": out.status.code()})))
}

pub fn replay(ctx: &RunCtx, case: &Value) -> Result<Option<Fail>, String> {
    if case.get("static").and_then(|s| s.as_bool()).unwrap_or(false) {
        return Ok(static_check().err());
    }
    // a concurrency failure cannot be replayed deterministically: re-run the stress rounds
    let o = run(ctx);
    Ok(o.violations.into_iter().next().map(|v| v.fail))
}
