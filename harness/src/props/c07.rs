//! C07: searches terminate within bounds; limit errors only when the limit is really exceeded.
use super::api::wild_texts;
use super::c01::{stage, stage_random};
use super::diffref::known_class;
use super::{product_space, space};
use crate::ast::{Node, Node::*};
use crate::core::*;
use crate::engine::{self, Built, Out};
use crate::gen::{self, RandCfg};
use crate::refm::{self, RefResult, SearchOpts};
use fancy_regex::verif_hooks::{last_run_stats, reset_run_stats};
use fancy_regex::Regex;

pub struct Limits {
    pub only_pos0: bool,
}

const FIXED: [usize; 9] = [0, 1, 2, 3, 5, 10, 100, 1_000_000, usize::MAX];
const MAX_STACK: u64 = 1_000_000;

pub struct LP {
    re: Regex,
    limited: Vec<(usize, Regex)>,
    pat: String,
    prog_len: u64,
    rep_product: u64,
    reference: Option<refm::Prog>,
    /// member of the known-finding classes F4 (conditional inside an atomic context) or F25 (nested counted repeats over a nullable body)
    f4: bool,
}

fn rep_product(n: &Node) -> u64 {
    let mut p: u64 = 1;
    fn walk(n: &Node, p: &mut u64) {
        if let Repeat(_, lo, hi, _) = n {
            let b = (*lo).max(hi.unwrap_or(*lo)).max(1) as u64;
            *p = p.saturating_mul(b + 1);
        }
        for c in n.children() {
            walk(c, p);
        }
    }
    walk(n, &mut p);
    p
}

impl PatProp for Limits {
    type P = LP;
    fn all_offsets(&self) -> bool {
        !self.only_pos0
    }
    fn prepare(&self, ctx: &RunCtx, n: &Node, pat: &str, st: &mut Stats) -> Prep<LP> {
        let re = match engine::build(pat) {
            Built::Ok(r) => r,
            Built::Err(_) => return Prep::Skip("compile:error"),
            Built::Panic(p) => return Prep::Fail(Fail::new("compile-panic", "Ok or Err", p)),
        };
        if !engine::is_vm(&re) {
            return Prep::Skip("domain:not-VM-compiled");
        }
        let mut limited = vec![];
        for l in FIXED {
            match engine::build_with(pat, |b| {
                b.backtrack_limit(l);
            }) {
                Built::Ok(r) => limited.push((l, r)),
                _ => return Prep::Fail(Fail::new("option-build-error", "builds like the plain pattern", format!("backtrack_limit({})", l))),
            }
        }
        let prog_len = engine::program_shape(pat).map(|(_, k)| k.len() as u64).unwrap_or(64);
        // the reference is only consulted for the SIZE of its exploration ("tiny exploration => no limit
        // error"), never for its answer, so the classes with disputed semantics (F1, F4, F14) stay in
        let _ = (ctx, known_class);
        // with the VM's own rule for empty loop iterations, so that the size of the two explorations is comparable
        let reference = Some({
            let mut r = refm::compile(n);
            r.vm_loops = true;
            r
        });
        if reference.is_some() {
            st.class("oracle:reference-available");
        }
        let mut f4 = n.has_cond_leak() && ctx.active("cond_inside_atomic_context");
        if f4 {
            st.exclude("F4:cond_inside_atomic_context (only the tiny-exploration clause)");
        }
        if n.has_nested_counted_nullable_repeat() && ctx.active("counted_repeat_nullable_body_nested") {
            st.exclude("F25:counted_repeat_nullable_body_nested (only the tiny-exploration clause)");
            f4 = true;
        }
        Prep::Ready(LP { re, limited, pat: pat.to_string(), prog_len, rep_product: rep_product(n), reference, f4 })
    }

    fn eval(&self, _ctx: &RunCtx, p: &LP, _n: &Node, t: &str, pos: usize) -> Verdict {
        reset_run_stats();
        let base = engine::find_from_pos(&p.re, t, pos);
        let stats = last_run_stats();
        if matches!(base, Out::Panic(_)) {
            return Verdict::Skip("panic (judged by C05)");
        }
        if stats.runs != 1 {
            return Verdict::Fail(Fail::new("hook", "exactly one VM run per find_from_pos", format!("{} runs", stats.runs)));
        }
        let b = stats.backtracks;
        // (iii) default limits on a tiny exploration
        if let Out::Err(e) = &base {
            if p.f4 {
                // known finding F4: the commit of the enclosing atomic construct discards too few alternatives, so the
                // engine really explores more than the reference does (seen here through the step counter)
                return Verdict::Skip("F4 / F25 class (limit error not judged)");
            }
            if let Some(r) = &p.reference {
                let (rr, rs) = refm::search_with(r, t, pos, SearchOpts { budget: 10_000, ..SearchOpts::default() });
                if rr != RefResult::Budget && rs.steps <= 10_000 {
                    return Verdict::Fail(Fail::new("spurious-limit-error", format!("an answer: the reference exploration took {} steps", rs.steps), format!("Err({}) after {} backtracks, peak stack {}", e, b, stats.max_stack)));
                }
            }
            return Verdict::Pass { nontrivial: false, class: Some("default-limits:error") };
        }
        // (iv) work bounds from the hook statistics
        if stats.max_stack > MAX_STACK {
            return Verdict::Fail(Fail::new("stack-bound", format!("<= {}", MAX_STACK), format!("{}", stats.max_stack)));
        }
        let bound = (stats.pushes + b + 1).saturating_mul(p.prog_len).saturating_mul(p.rep_product.saturating_add(1)).saturating_mul(t.len() as u64 + 2);
        if stats.insns > bound {
            return Verdict::Fail(Fail::new("step-bound", format!("<= {} instructions ((pushes {} + backtracks {} + 1) x program length {} x counted-repeat factor {} x (len+2))", bound, stats.pushes, b, p.prog_len, p.rep_product + 1), format!("{}", stats.insns)));
        }
        // (ii) the limit threshold is sharp
        let lim_err: Out<refm::Span> = Out::Err("BacktrackLimitExceeded".to_string());
        let (mut below, mut above) = (false, false);
        let mut check = |l: usize, re: &Regex| -> Option<Fail> {
            let got = engine::find_from_pos(re, t, pos);
            let want = if (l as u64) < b { &lim_err } else { &base };
            if &got != want {
                return Some(Fail::new("limit-threshold", format!("limit {} with {} backtracks needed: {}", l, b, want.show()), got.show()));
            }
            if (l as u64) < b {
                below = true
            } else {
                above = true
            }
            None
        };
        for (l, re) in &p.limited {
            if let Some(f) = check(*l, re) {
                return Verdict::Fail(f);
            }
        }
        // the other entry points run the same search: same threshold
        if pos == 0 {
            for (l, re) in p.limited.iter().filter(|(l, _)| [0usize, 2, 10].contains(l)) {
                let im = engine::guard(|| re.is_match(t));
                let want_im: Out<bool> = if (*l as u64) < b { Out::Err("BacktrackLimitExceeded".into()) } else { Out::Val(matches!(base, Out::Val(Some(_)))) };
                if im != want_im {
                    return Verdict::Fail(Fail::new("limit-threshold-is_match", format!("limit {} with {} backtracks needed: {}", l, b, want_im.show()), im.show()));
                }
                let cc = engine::captures_from_pos(re, t, 0);
                let cc0: Out<refm::Span> = match cc {
                    Out::Val(v) => Out::Val(v.and_then(|v| v[0])),
                    Out::Err(e) => Out::Err(e),
                    Out::Panic(x) => Out::Panic(x),
                };
                let want_c = if (*l as u64) < b { &lim_err } else { &base };
                if &cc0 != want_c {
                    return Verdict::Fail(Fail::new("limit-threshold-captures", format!("limit {} with {} backtracks needed: {}", l, b, want_c.show()), cc0.show()));
                }
                // the first item of the iterators and a one-replacement try_replacen with a group-expanding template
                // run that same first search
                let first = |x: Option<fancy_regex::Result<(usize, usize)>>| -> Out<refm::Span> {
                    match x {
                        None => Out::Val(None),
                        Some(Ok(s)) => Out::Val(Some(s)),
                        Some(Err(e)) => Out::Err(engine::err_kind(&e)),
                    }
                };
                let fi = std::panic::catch_unwind(std::panic::AssertUnwindSafe(|| first(re.find_iter(t).next().map(|m| m.map(|m| (m.start(), m.end()))))));
                let ci = std::panic::catch_unwind(std::panic::AssertUnwindSafe(|| first(re.captures_iter(t).next().map(|c| c.map(|c| c.get(0).map_or((usize::MAX, usize::MAX), |m| (m.start(), m.end())))))));
                for (name, got) in [("find_iter().next()", fi), ("captures_iter().next()", ci)] {
                    if let Ok(got) = got {
                        if &got != want_c {
                            return Verdict::Fail(Fail::new("limit-threshold-iterators", format!("limit {} with {} backtracks needed: {} = {}", l, b, name, want_c.show()), got.show()));
                        }
                    }
                }
                let rep = std::panic::catch_unwind(std::panic::AssertUnwindSafe(|| re.try_replacen(t, 1, "<$0>").map(|c| c.into_owned())));
                if let Ok(rep) = rep {
                    let want_r: Result<String, String> = if (*l as u64) < b {
                        Err("BacktrackLimitExceeded".to_string())
                    } else {
                        match &base {
                            Out::Val(Some((s, e))) => Ok(format!("{}<{}>{}", &t[..*s], &t[*s..*e], &t[*e..])),
                            _ => Ok(t.to_string()),
                        }
                    };
                    let got_r = rep.map_err(|e| engine::err_kind(&e));
                    // try_replacen(t, 1, ..) looks for a second match before it stops: that search has a budget of its
                    // own and may legitimately exceed it, so above the threshold a limit error is accepted as well
                    let later_search_hit_limit = (*l as u64) >= b && got_r == Err("BacktrackLimitExceeded".to_string());
                    if got_r != want_r && !later_search_hit_limit {
                        return Verdict::Fail(Fail::new("limit-threshold-replace", format!("limit {} with {} backtracks needed: try_replacen(t, 1, \"<$0>\") = {:?}", l, b, want_r), format!("{:?}", got_r)));
                    }
                }
            }
        }
        // whole find_iter histories: search k of the iteration has a budget of its own (B_k read through the hook while
        // iterating without a limit); under limit L the items equal the unlimited ones up to the first k with B_k > L,
        // where the item is the limit error
        if pos == 0 {
            let bound = t.chars().count() + 3;
            let unlimited = std::panic::catch_unwind(std::panic::AssertUnwindSafe(|| {
                let mut v: Vec<(Option<(usize, usize)>, u64)> = vec![];
                let mut it = p.re.find_iter(t);
                loop {
                    reset_run_stats();
                    let x = it.next();
                    // one next() may run two searches (an empty match next to the previous one is dropped and the
                    // search repeated one character on): the costliest one decides
                    let st = last_run_stats();
                    let bk = st.backtracks.max(st.max_backtracks_before);
                    match x {
                        None => {
                            v.push((None, bk));
                            break;
                        }
                        Some(Ok(m)) => v.push((Some((m.start(), m.end())), bk)),
                        Some(Err(_)) => return None,
                    }
                    if v.len() > bound {
                        return None;
                    }
                }
                Some(v)
            }));
            if let Ok(Some(hist)) = unlimited {
                for (l, re) in p.limited.iter().filter(|(l, _)| [0usize, 2, 10].contains(l)) {
                    let got = std::panic::catch_unwind(std::panic::AssertUnwindSafe(|| {
                        let mut v: Vec<String> = vec![];
                        for x in re.find_iter(t).take(bound + 1) {
                            match x {
                                Ok(m) => v.push(format!("({},{})", m.start(), m.end())),
                                Err(e) => {
                                    v.push(format!("Err({})", engine::err_kind(&e)));
                                    break;
                                }
                            }
                        }
                        v
                    }));
                    let mut want: Vec<String> = vec![];
                    for (item, bk) in &hist {
                        if *bk > *l as u64 {
                            want.push("Err(BacktrackLimitExceeded)".to_string());
                            break;
                        }
                        match item {
                            Some((s, e)) => want.push(format!("({},{})", s, e)),
                            None => break,
                        }
                    }
                    if let Ok(got) = got {
                        if got != want {
                            return Verdict::Fail(Fail::new("limit-threshold-find_iter", format!("limit {}: {:?} (backtracks per search without a limit: {:?})", l, want, hist.iter().map(|h| h.1).collect::<Vec<_>>()), format!("{:?}", got)));
                        }
                    }
                }
            }
        }
        // exact threshold for counts that are not next to one of the fixed limits
        if b >= 12 && pos == 0 && t.len() % 2 == 0 {
            for l in [b - 1, b, b + 1] {
                if let Built::Ok(re) = engine::build_with(&p.pat, |x| {
                    x.backtrack_limit(l as usize);
                }) {
                    if let Some(f) = check(l as usize, &re) {
                        return Verdict::Fail(f);
                    }
                }
            }
        }
        Verdict::Pass { nontrivial: b >= 1 && below && above, class: if b == 0 { Some("backtracks:0") } else if b < 12 { Some("backtracks:1..11") } else { Some("backtracks:>=12") } }
    }
}

pub fn run(ctx: &RunCtx) -> Outcome {
    let p = Limits { only_pos0: false };
    let mut o = Outcome::default();
    o.rule = "VM-compiled patterns of the unrestricted space (exhaustive trees, context x filler products with conditionals, proptest random ASTs) x texts x offsets. Per case the unlimited search is run once and its statistics read through the hook (backtracks B, pushes, peak branch stack, instructions): (ii) for every limit L in {0,1,2,3,5,10,100,10^6,usize::MAX} (and B-1, B, B+1 for larger B) the search under backtrack_limit(L) returns exactly Err(BacktrackLimitExceeded) if L < B and exactly the unlimited answer otherwise (find_from_pos at every offset; is_match, captures, the first item of find_iter / captures_iter and try_replacen(t, 1, \"<$0>\") at offset 0 for L in {0,2,10}; try_replacen looks for a second match, whose own search may hit the limit, so above the threshold it may also return the limit error); (iii) with default limits a runtime error is only accepted if the reference exploration of the same case is not tiny (> 10^4 steps); (iv) peak stack <= 10^6 and instructions <= (pushes + B + 1) x |program| x counted-repeat factor x (len+2). Whole find_iter histories under L in {0,2,10}: item k is the unlimited item while the k-th search's own backtrack count (hook) is <= L, the limit error at the first search that needs more. Non-trivial = B >= 1 and limits on both sides of the threshold were exercised. Distinct = distinct (pattern, text, offset).".into();
    o.assumptions = vec!["hook statistics are those of the single vm::run behind find_from_pos".into(), "wall clock is only a watchdog".into()];
    o.required_classes = vec!["backtracks:1..11".into(), "backtracks:>=12".into(), "oracle:reference-available".into()];
    let quick = ctx.quick();
    let n = if quick { 4 } else { 5 };
    let mut cfg = gen::wild_cfg();
    if !quick {
        cfg.leaves.retain(|l| !matches!(l, Lit('é') | Assert(crate::ast::A::EndText)));
    }
    let pats = space(&cfg, n, true);
    let texts: Vec<String> = wild_texts(true).into_iter().filter(|t| t.chars().count() <= 3 || t.is_ascii()).collect();
    if !stage(ctx, &mut o, &p, &format!("unrestricted leaves N<={}", n), &pats, &texts) {
        return o;
    }
    o.exhaustive = Some(format!("all VM-compiled trees with <= {} nodes over the unrestricted leaf set x {} texts x all offsets x 8 limits", n, texts.len()));
    let prods = product_space(true, if quick { 1 } else { 2 });
    let ptexts = {
        let mut t = gen::texts(&['a', 'b', 'c'], 3);
        t.extend(["aaaaaaaa", "abababab", "aaaaaaab", "aéaéaé"].iter().map(|s| s.to_string()));
        t
    };
    if !stage(ctx, &mut o, &p, "context x filler (with conditionals)", &prods, &ptexts) {
        return o;
    }
    // long texts: catastrophic patterns legitimately hit the limits here, cheap ones must not
    {
        let lp = Limits { only_pos0: true };
        let long: Vec<String> = vec!["a".repeat(24), "a".repeat(30) + "b", "ab".repeat(14), "a".repeat(200)];
        let loops: Vec<Node> = prods.iter().filter(|n| n.any(|x| matches!(x, Repeat(_, _, None, _)))).cloned().collect();
        if !stage(ctx, &mut o, &lp, "products with unbounded loops x long texts (offset 0)", &loops, &long) {
            return o;
        }
    }
    // loops around committing constructs with several matching VM-interpreted alternatives: linear for the
    // reference, exponential for an engine that forgets to commit
    {
        let lp = Limits { only_pos0: true };
        let long: Vec<String> = vec!["a".repeat(26), "a".repeat(30) + "b", "a".repeat(22) + "c", "ab".repeat(13), "ba".repeat(15) + "!", "ba".repeat(12) + "c"];
        if !stage(ctx, &mut o, &lp, "loops around committing constructs x long texts (offset 0)", &gen::loop_commit_products(), &long) {
            return o;
        }
    }
    {
        let it = gen::texts(&['a', 'b'], 4);
        if !stage(ctx, &mut o, &p, "repeats with lower bound above upper bound (rejected, or sane)", &gen::inverted_repeat_patterns(), &it) {
            return o;
        }
    }
    let cases = if quick { 60_000 } else { 1_000_000 };
    stage_random(ctx, &mut o, &p, "random unrestricted", &RandCfg::wild(), &ptexts, cases, &|_| true);
    o
}
