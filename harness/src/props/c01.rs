//! C01 (spans), C02 (captures), C15 (conditionals): differential against the reference matcher.
use super::diffref::DiffRef;
use super::{product_space, space};
use crate::core::*;
use crate::gen::{self, RandCfg};
use serde_json::json;

pub fn prop(caps: bool) -> DiffRef {
    DiffRef { caps, allow_cond: false, cond_focus: false, omit_empty_no: false, only_pos0: false, f1_undisputed: false, free_cond_refs: false, ref_style: 0 }
}
pub fn prop_cond() -> DiffRef {
    DiffRef { caps: true, allow_cond: true, cond_focus: true, omit_empty_no: false, only_pos0: false, f1_undisputed: false, free_cond_refs: false, ref_style: 0 }
}

pub fn stage<P: PatProp>(ctx: &RunCtx, o: &mut Outcome, p: &P, name: &str, pats: &[crate::ast::Node], texts: &[String]) -> bool {
    if !o.violations.is_empty() {
        return false;
    }
    let t0 = std::time::Instant::now();
    let (st, found) = explore(ctx, p, pats, texts);
    o.generators.push(json!({"mode": "enumerated", "name": name, "patterns": pats.len(), "texts": texts.len(), "evaluations": st.evaluations, "wall_s": t0.elapsed().as_secs_f64()}));
    let v = found.map(|f| finish(ctx, p, f));
    o.absorb(st, v);
    o.violations.is_empty()
}

pub fn stage_random<P: PatProp>(ctx: &RunCtx, o: &mut Outcome, p: &P, name: &str, cfg: &RandCfg, texts: &[String], cases: u64, accept: &(dyn Fn(&crate::ast::Node) -> bool + Sync)) -> bool {
    if !o.violations.is_empty() {
        return false;
    }
    let t0 = std::time::Instant::now();
    let (st, found) = explore_random(ctx, p, name, cfg, texts, cases, accept);
    o.generators.push(json!({"mode": "random(proptest bytes -> AST)", "name": name, "cases": cases, "texts": texts.len(), "evaluations": st.evaluations, "seed": ctx.seed, "wall_s": t0.elapsed().as_secs_f64()}));
    let v = found.map(|f| finish(ctx, p, f));
    o.absorb(st, v);
    o.violations.is_empty()
}

pub fn run(ctx: &RunCtx, caps: bool) -> Outcome {
    let p = prop(caps);
    let mut o = Outcome::default();
    o.rule = if caps {
        "patterns: exhaustive trees by node count over the core and unicode leaf sets, context x filler products (depth 2), proptest byte vectors decoded into ASTs; every pattern x every text x every char-boundary offset, captures_from_pos compared group by group with the reference matcher. Non-trivial = VM-compiled pattern, reference matched, and some group sits inside a repeat / look-around / atomic group / alternation. Distinct = distinct (printed pattern, text, offset).".into()
    } else {
        "patterns: exhaustive trees by node count over the core and unicode leaf sets, context x filler products (depth 2), proptest byte vectors decoded into ASTs; every pattern x every text x every char-boundary offset, find_from_pos (and is_match at offset 0) compared with the reference leftmost ordered-backtracking search. Non-trivial = pattern compiled to the VM (not handed to the automata engine whole) and the reference matched or backtracked at least twice. Distinct = distinct (printed pattern, text, offset).".into()
    };
    o.assumptions = vec![
        "the reference matcher (harness/src/refm.rs) implements the intended Perl/Oniguruma-style semantics; it shares no code with the crate".into(),
        "classes listed in known_findings.json with status known are excluded from exploration and probed by witness".into(),
    ];
    o.required_classes = vec!["engine:VM/1-delegate".into(), "engine:VM/0-delegates".into(), "engine:Wrap".into(), "outcome:match".into()];
    let quick = ctx.quick();
    let sigma3 = gen::text_set(&gen::SIGMA, 3, 0);
    let core_n = if quick { 4 } else { 5 };
    let pats = space(&gen::core_cfg(), core_n, false);
    if !stage(ctx, &mut o, &p, &format!("core N<={}", core_n), &pats, &sigma3) {
        return o;
    }
    o.exhaustive = Some(format!("all valid trees with <= {} nodes over the core leaf/operator set x all texts over {{a,b,c,é,\\n,-}} of length <= 3 x all offsets", core_n));
    let uni_n = if quick { 3 } else { 4 };
    let upats = space(&gen::uni_cfg(), uni_n, false);
    let mut utexts = gen::text_set(&gen::SIGMA5, 3, 0);
    utexts.extend(gen::cr_texts());
    if !stage(ctx, &mut o, &p, &format!("unicode/line-anchor leaves N<={}", uni_n), &upats, &utexts) {
        return o;
    }
    // literals that are meta-characters
    {
        let mp = space(&gen::meta_cfg(), if quick { 3 } else { 4 }, false);
        let mut mt = gen::texts(&gen::META_SIGMA, 3);
        mt.extend(["\\", ")a", "[.", "a\\a", "$)"].iter().map(|s| s.to_string()));
        if !stage(ctx, &mut o, &p, "meta-character literals", &mp, &mt) {
            return o;
        }
    }
    // scoped flag groups (i, -i, s, m, U and combinations) around and inside the fancy constructs
    {
        let fp = space(&gen::flag_cfg(), if quick { 3 } else { 4 }, false);
        let ft = gen::texts(&gen::FLAG_SIGMA, 3);
        if !stage(ctx, &mut o, &p, "flag groups x fancy constructs, mixed-case texts", &fp, &ft) {
            return o;
        }
    }
    // texts with characters on the UTF-8 length-class boundaries
    {
        let mut small = space(&gen::core_cfg(), 3, false);
        small.extend(space(&gen::uni_cfg(), 3, false));
        small.extend(product_space(false, 1));
        let small = gen::dedup_by_print(small);
        if !stage(ctx, &mut o, &p, "small patterns x UTF-8 edge texts", &small, &gen::edge_texts()) {
            return o;
        }
    }
    let prods = product_space(false, 2);
    let ptexts = {
        let mut t = gen::texts(&['a', 'b', 'c'], 4);
        t.extend(gen::texts(&gen::SIGMA5, 2).into_iter().filter(|s| s.contains('é') || s.contains('\n') || s.contains('-')));
        t
    };
    if !stage(ctx, &mut o, &p, "context x filler depth 2", &prods, &ptexts) {
        return o;
    }
    // the same references spelled \k<N> and relative \k<-n> (the parser resolves them on a path of their own)
    {
        let with_refs: Vec<_> = prods.iter().filter(|n| n.any(|x| matches!(x, crate::ast::Node::Backref(_)))).cloned().collect();
        let rtexts = gen::texts(&['a', 'b', 'c'], 4);
        for rs in [1u8, 2] {
            let rp = DiffRef { ref_style: rs, ..prop(caps) };
            if !stage(ctx, &mut o, &rp, if rs == 1 { "products with references spelled \\k<N>" } else { "products with references spelled \\k<-n>" }, &with_refs, &rtexts) {
                return o;
            }
        }
    }
    // long texts (many loop iterations, deep branch stacks and long undo logs), offset 0 only
    {
        let long: Vec<String> = vec!["a".repeat(32) + "b", "a".repeat(24), "ab".repeat(12), "a".repeat(21) + "-", "b".to_string() + &"a".repeat(25)];
        let lp = DiffRef { only_pos0: true, ..prop(caps) };
        let loops: Vec<_> = prods.iter().filter(|n| n.any(|x| matches!(x, crate::ast::Node::Repeat(_, _, None, _)))).cloned().collect();
        if !stage(ctx, &mut o, &lp, "context x filler with unbounded loops x long texts (offset 0)", &loops, &long) {
            return o;
        }
    }
    {
        let lp = DiffRef { only_pos0: true, ..prop(caps) };
        let long: Vec<String> = vec!["a".repeat(26), "a".repeat(30) + "b", "a".repeat(22) + "c", "ab".repeat(13), "ba".repeat(15) + "!", "ba".repeat(12) + "c", "aaac".to_string(), "abc".to_string()];
        if !stage(ctx, &mut o, &lp, "loops around committing constructs x long texts (offset 0)", &gen::loop_commit_products(), &long) {
            return o;
        }
    }
    // the F1 class is not explored against the reference (known finding), but where the Perl rule and
    // the VM's own rule for an empty iteration agree the answer is undisputed: compare there, for
    // patterns whose nullable loops are all interpreted by the VM
    {
        let fp = DiffRef { f1_undisputed: true, ..prop(caps) };
        let mut f1: Vec<_> = space(&gen::core_cfg(), core_n.min(4), false).into_iter().filter(|n| n.has_f1()).collect();
        f1.extend(prods.iter().filter(|n| n.has_f1()).cloned());
        {
            use crate::ast::{Node::*, Q};
            let bx = |n: crate::ast::Node| Box::new(n);
            // nullable loops nested in counted repeats / groups / look-arounds
            let inner = vec![
                Repeat(bx(Repeat(bx(Lit('a')), 0, Some(1), Q::Greedy)), 0, None, Q::Greedy),
                Repeat(bx(Group(bx(Repeat(bx(Lit('a')), 0, None, Q::Greedy)))), 0, None, Q::Greedy),
                Repeat(bx(Alt(vec![Lit('a'), Empty])), 1, None, Q::Greedy),
                Repeat(bx(Alt(vec![Empty, Lit('a')])), 0, None, Q::Lazy),
                Repeat(bx(Look(bx(Lit('a')), false, false)), 0, None, Q::Greedy),
            ];
            for i in &inner {
                for (lo, hi) in [(2u32, Some(2u32)), (3, Some(3)), (1, Some(2)), (2, None)] {
                    let tails = vec![Look(bx(Lit('b')), false, true), Repeat(bx(Lit('b')), 0, Some(1), Q::Greedy), Assert(crate::ast::A::WordB), Empty];
                    for t in tails {
                        let body = super::api::flatten(Concat(vec![i.clone(), t.clone()]));
                        f1.push(Repeat(bx(body.clone()), lo, hi, Q::Greedy));
                        f1.push(super::api::flatten(Concat(vec![Repeat(bx(body), lo, hi, Q::Greedy), Look(bx(Lit('c')), false, true)])));
                    }
                }
            }
        }
        {
            // open-ended counted repeats over a back-reference (analysed minimum size 0, but it cannot match empty)
            use crate::ast::{Node::*, Q};
            let bx = |n: crate::ast::Node| Box::new(n);
            for first in [Group(bx(Lit('a'))), Group(bx(Alt(vec![Lit('a'), Lit('b')]))), Group(bx(Repeat(bx(Lit('a')), 1, Some(2), Q::Greedy)))] {
                for (lo, q) in [(2u32, Q::Greedy), (2, Q::Lazy), (3, Q::Greedy), (2, Q::Poss)] {
                    for tail in [Empty, Lit('b'), Assert(crate::ast::A::EndText)] {
                        f1.push(super::api::flatten(Concat(vec![first.clone(), Repeat(bx(Backref(1)), lo, None, q), tail.clone()])));
                    }
                }
            }
        }
        let f1 = gen::dedup_by_print(f1);
        let mut f1texts = gen::texts(&['a', 'b', 'x'], 4);
        f1texts.extend(["aaaaa", "aaaaab", "aaaaaa", "bbbb", "aaaab"].iter().map(|s| s.to_string()));
        if !stage(ctx, &mut o, &fp, "F1 class, VM-interpreted loops, undisputed cases", &f1, &f1texts) {
            return o;
        }
    }
    if !quick {
        // deeper texts for the small patterns
        let pats4 = space(&gen::core_cfg(), 4, false);
        let sigma4 = gen::text_set(&gen::SIGMA, 4, 6);
        if !stage(ctx, &mut o, &p, "core N<=4, texts <= 4 (+{a,b} <= 6)", &pats4, &sigma4) {
            return o;
        }
    }
    let rtexts = {
        let mut t = gen::texts(&['a', 'b', 'c'], 3);
        t.extend(gen::texts(&gen::SIGMA5, 2).into_iter().filter(|s| s.contains('é') || s.contains('\n') || s.contains('-')));
        t.extend(["aaab", "abab", "abcabc", "aabb", "ababc", "aéaé", "a\nb", "ab-ab"].iter().map(|s| s.to_string()));
        t
    };
    let cases = if quick { 200_000 } else { 3_000_000 };
    if !stage_random(ctx, &mut o, &p, "random core", &RandCfg::core(), &rtexts, cases, &|_| true) {
        return o;
    }
    {
        let mut ft = gen::texts(&gen::FLAG_SIGMA, 2);
        ft.extend(["aAb", "ABa", "a\nB", "bBa", "AAab", "abAB", "a\nb\nA", "BaBa"].iter().map(|s| s.to_string()));
        if !stage_random(ctx, &mut o, &p, "random core + flag groups", &RandCfg::flagged(), &ft, cases / 2, &|n| n.any(|x| matches!(x, crate::ast::Node::Flags(..)))) {
            return o;
        }
    }
    // wide patterns: 8..37 groups (two-digit group numbers, save slots beyond 64), offset 0
    if o.violations.is_empty() {
        let wp = DiffRef { only_pos0: true, ..prop(caps) };
        let t0 = std::time::Instant::now();
        let wcases = if quick { 30_000 } else { 400_000 };
        let wtexts = gen::wide_texts();
        let (st, found) = explore_random_with(ctx, &wp, "wide patterns", &wtexts, wcases, &|bytes| Some(gen::decode_wide(bytes)));
        o.generators.push(json!({"mode": "random(proptest bytes -> 8..37 groups in a row, wrapped, with a tail reading one group back)", "name": "wide patterns", "cases": wcases, "texts": wtexts.len(), "evaluations": st.evaluations, "seed": ctx.seed, "wall_s": t0.elapsed().as_secs_f64()}));
        let v = found.map(|f| finish(ctx, &wp, f));
        o.absorb(st, v);
    }
    if !quick && o.violations.is_empty() {
        // the target compares all groups; for C01 only span / existence failures are violations of C01
        super::api::fuzz_stage(ctx, &mut o, &prop(true), "fuzz_diff", crate::fuzzdec::run_diff);
        if !caps {
            o.violations.retain(|v| v.fail.kind != "caps" && v.fail.kind != "caps-len");
        }
    }
    o
}

pub fn run_cond(ctx: &RunCtx) -> Outcome {
    let p = prop_cond();
    let mut o = Outcome::default();
    o.rule = "patterns: exhaustive trees by node count over the conditional leaf set (both conditional forms at every position), context x filler products with conditional contexts, proptest byte vectors decoded into ASTs with conditionals; every pattern x text x offset, all capture groups compared with the reference matcher (condition tried once atomically; yes continues after it with no fallback to no). Non-trivial = pattern contains a conditional and the reference matched or backtracked. Distinct = distinct (pattern, text, offset).".into();
    o.assumptions = vec!["reference semantics of conditionals as documented in the crate docs (lib.rs) and compile_conditional's comment".into()];
    o.required_classes = vec!["feature:cond".into(), "outcome:match".into()];
    let quick = ctx.quick();
    let n = if quick { 5 } else { 6 };
    let pats: Vec<_> = space(&gen::cond_cfg(), n, false).into_iter().filter(|x| x.has_cond()).collect();
    let sigma = gen::text_set(&['a', 'b', 'c', '-'], 3, if quick { 0 } else { 5 });
    if !stage(ctx, &mut o, &p, &format!("conditional leaves N<={}", n), &pats, &sigma) {
        return o;
    }
    o.exhaustive = Some(format!("all valid trees with <= {} nodes over the conditional leaf set containing a conditional x all texts over {{a,b,c,-}} of length <= 3 x all offsets", n));
    let prods: Vec<_> = product_space(true, 2).into_iter().filter(|x| x.has_cond()).collect();
    let ptexts = gen::texts(&['a', 'b', 'c'], 4);
    if !stage(ctx, &mut o, &p, "conditional contexts x fillers depth 2", &prods, &ptexts) {
        return o;
    }
    // conditionals inside look-behinds (a group test has no length of its own)
    {
        let lb: Vec<_> = super::c13::lookbehind_products().into_iter().filter(|x| x.has_cond()).collect();
        let mut t = gen::texts(&['a', 'b', 'c'], 4);
        t.extend(["aab", "abc", "bbc", "abbc"].iter().map(|s| s.to_string()));
        if !stage(ctx, &mut o, &p, "conditionals inside look-behinds", &lb, &t) {
            return o;
        }
    }
    // conditions on groups that are not open or do not exist: rejected at compile time today; if a
    // pattern is accepted, the condition must be false
    {
        use crate::ast::Node::*;
        fn bump(n: &crate::ast::Node, by: usize) -> crate::ast::Node {
            let mut m = n.clone();
            match &mut m {
                GroupExists(g) => *g += by,
                CondGroup(g, ..) => *g += by,
                _ => {}
            }
            for c in m.children_mut() {
                let b = bump(c, by);
                *c = b;
            }
            m
        }
        let fp = DiffRef { free_cond_refs: true, ..prop_cond() };
        let small: Vec<_> = space(&gen::cond_cfg(), 4, true).into_iter().filter(|x| x.has_cond()).collect();
        let mut v = vec![];
        for b in small.iter().chain(prods.iter().filter(|x| x.size() <= 9)) {
            v.push(bump(b, 1));
            v.push(bump(b, 2));
        }
        v.extend(space(&gen::cond_cfg(), 4, true).into_iter().filter(|x| x.has_cond() && !x.refs_valid(false)));
        // a condition on the group it sits in, inside a loop: from the second iteration on the group has a value
        // (that of the previous iteration), exactly as a later `(?(1)..)` outside the group would see it
        {
            use crate::ast::Q;
            let bx = |n: crate::ast::Node| Box::new(n);
            let lits = [Lit('b'), Lit('c'), Empty, Lit('a')];
            for pre in [Empty, Lit('x')] {
                for head in [Empty, Lit('a')] {
                    for y in &lits {
                        for no in &lits {
                            let conds = if *y == Empty && *no == Empty { vec![GroupExists(1)] } else { vec![CondGroup(1, bx(y.clone()), bx(no.clone()))] };
                            for cond in conds {
                                let body = super::api::flatten(Concat(vec![pre.clone(), Group(bx(super::api::flatten(Concat(vec![head.clone(), cond.clone()]))))]));
                                if !body.repeatable() {
                                    continue;
                                }
                                for (lo, hi, q) in [(1u32, None, Q::Greedy), (2, Some(2u32), Q::Greedy), (0, None, Q::Greedy), (1, Some(2), Q::Lazy), (1, None, Q::Poss)] {
                                    v.push(Repeat(bx(body.clone()), lo, hi, q));
                                    v.push(super::api::flatten(Concat(vec![Repeat(bx(body.clone()), lo, hi, q), Lit('c')])));
                                }
                            }
                        }
                    }
                }
            }
        }
        let v = gen::dedup_by_print(v);
        o.stats.class_n("spelling:condition-on-missing-group", v.len() as u64);
        let mut ftexts = gen::texts(&['a', 'b', 'c'], 3);
        ftexts.extend(gen::texts(&['x', 'a', 'b', 'c'], 4).into_iter().filter(|t| t.contains('x') && t.len() >= 3));
        ftexts.extend(["xacxab", "xacxac", "acab", "acabc", "xabxab", "xaxab", "xcxb"].iter().map(|s| s.to_string()));
        if !stage(ctx, &mut o, &fp, "conditions on groups that are not open / do not exist", &v, &ftexts) {
            return o;
        }
    }
    // the "no-branch omitted" spelling: (?(c)yes) must mean (?(c)yes|) also when yes is an alternation
    {
        use crate::ast::Node::*;
        let omit = DiffRef { omit_empty_no: true, ..prop_cond() };
        let both: Vec<_> = pats.iter().chain(prods.iter()).filter(|x| x.any(|y| matches!(y, CondExpr(_, yes, no) | CondGroup(_, yes, no) if **no == Empty && matches!(**yes, Alt(_))))).cloned().collect();
        o.stats.class_n("spelling:no-branch-omitted-after-alternation", both.len() as u64);
        if !stage(ctx, &mut o, &omit, "no-branch omitted spelling", &both, &ptexts) {
            return o;
        }
    }
    let cases = if quick { 150_000 } else { 2_000_000 };
    let rtexts = gen::texts(&['a', 'b', 'c'], 4);
    stage_random(ctx, &mut o, &p, "random with conditionals", &RandCfg::cond(), &rtexts, cases, &|x| x.has_cond());
    o
}

