//! Differential check against the reference matcher (C01 spans, C02 captures, C15 conditionals).
use crate::ast::{Node, Node::*, Q};
use crate::core::*;
use crate::engine::{self, Built, Out};
use crate::refm::{self, RefResult};
use fancy_regex::Regex;

pub struct DiffRef {
    /// compare all capture groups through captures_from_pos (else: overall span through find_from_pos / is_match)
    pub caps: bool,
    /// conditionals allowed (C15) or excluded from the domain (C01/C02)
    pub allow_cond: bool,
    /// only patterns containing a conditional count as non-trivial (C15)
    pub cond_focus: bool,
    /// spell conditionals with an empty no-branch without the `|` (documented: "empty if omitted")
    pub omit_empty_no: bool,
    /// search only from offset 0 (used for the long-text stage)
    pub only_pos0: bool,
    /// F1-class stage: only patterns with a nullable unbounded loop, all of them interpreted by the VM;
    /// compared with the reference only where the Perl rule and the VM's empty-iteration rule agree
    pub f1_undisputed: bool,
    /// group conditions may name groups that are not open / do not exist: if the crate accepts such a
    /// pattern at all, the condition must behave as "has not matched"
    pub free_cond_refs: bool,
    /// spelling of back-references: 0 = `\N`, 1 = `\k<N>`, 2 = relative `\k<-n>`
    pub ref_style: u8,
}

pub struct DP {
    pub re: Regex,
    pub prog: refm::Prog,
    pub prog_vm: Option<refm::Prog>,
    pub vm: bool,
    pub interesting_groups: bool,
    pub has_cond: bool,
}

/// some group sits inside a repeat, look-around, atomic group or alternation
fn groups_in_context(n: &Node, inside: bool) -> bool {
    match n {
        Group(c) => inside || groups_in_context(c, inside),
        Repeat(c, ..) | Look(c, ..) | Atomic(c) => groups_in_context(c, true),
        Alt(v) => v.iter().any(|c| groups_in_context(c, true)),
        CondGroup(_, y, no) => groups_in_context(y, true) || groups_in_context(no, true),
        CondExpr(c, y, no) => groups_in_context(c, true) || groups_in_context(y, true) || groups_in_context(no, true),
        _ => n.children().iter().any(|c| groups_in_context(c, inside)),
    }
}

pub fn known_class(ctx: &RunCtx, n: &Node) -> Option<&'static str> {
    if n.has_f1() && ctx.active("unbounded_repeat_nullable_body") {
        return Some("F1:unbounded_repeat_nullable_body");
    }
    if n.has_cond_leak() && ctx.active("cond_inside_atomic_context") {
        return Some("F4:cond_inside_atomic_context");
    }
    if n.has_bare_backref_cond() && ctx.active("cond_is_bare_backref") {
        return Some("F14:cond_is_bare_backref");
    }
    None
}

pub fn vm_class(pat: &str, vm: bool) -> &'static str {
    if !vm {
        return "engine:Wrap";
    }
    match engine::program_shape(pat).map(|(d, _)| d.len()) {
        Some(0) => "engine:VM/0-delegates",
        Some(1) => "engine:VM/1-delegate",
        Some(_) => "engine:VM/2+delegates",
        None => "engine:VM/?",
    }
}

impl PatProp for DiffRef {
    type P = DP;

    fn prepare(&self, ctx: &RunCtx, n: &Node, pat: &str, st: &mut Stats) -> Prep<DP> {
        if !self.allow_cond && n.has_cond() {
            return Prep::Skip("domain:conditional");
        }
        if self.f1_undisputed {
            if !n.has_f1() {
                return Prep::Skip("domain:no-nullable-unbounded-loop");
            }
            if (n.has_cond_leak() && ctx.active("cond_inside_atomic_context")) || (n.has_bare_backref_cond() && ctx.active("cond_is_bare_backref")) {
                return Prep::Excluded("F4/F14");
            }
            // every nullable unbounded loop must be interpreted by the VM: no delegated piece may contain one
            match engine::program_shape(pat) {
                Some((dels, _)) => {
                    for d in dels {
                        match crate::conv::parse(&d) {
                            Ok(t) if !t.has_f1() => {}
                            _ => return Prep::Skip("domain:nullable-loop-delegated"),
                        }
                    }
                }
                None => return Prep::Skip("compile:error"),
            }
        } else if let Some(k) = known_class(ctx, n) {
            return Prep::Excluded(k);
        }
        if self.free_cond_refs {
            if !n.backrefs_valid() {
                return Prep::Skip("domain:reference-to-unclosed-group");
            }
        } else if !n.refs_valid(false) {
            return Prep::Skip("domain:reference-to-unclosed-group");
        }
        let re = match engine::build(pat) {
            Built::Ok(r) => r,
            Built::Err(e) => {
                if engine::err_kind(&e) == "LookBehindNotConst" && n.any(|x| matches!(x, Look(_, true, _))) && n.all_lookbehinds_syntactically_fixed() && !n.any(|x| matches!(x, SetFlags(..))) {
                    return Prep::Fail(Fail::new("lookbehind-wrongly-rejected", "the pattern compiles: every look-behind alternative has a fixed length in characters by its syntax alone", "Err(LookBehindNotConst)"));
                }
                return Prep::Skip(match engine::err_kind(&e).as_str() {
                    "LookBehindNotConst" => "compile:LookBehindNotConst",
                    k if k.starts_with("ParseError") => "compile:ParseError",
                    _ => "compile:other-error",
                })
            }
            Built::Panic(p) => return Prep::Fail(Fail::new("compile-panic", "Ok or Err", p)),
        };
        let vm = engine::is_vm(&re);
        st.class(vm_class(pat, vm));
        for f in n.features() {
            st.class(&format!("feature:{}", f));
        }
        let prog_vm = if self.f1_undisputed {
            if !vm {
                return Prep::Skip("domain:nullable-loop-delegated");
            }
            let mut p = refm::compile(n);
            p.vm_loops = true;
            Some(p)
        } else {
            None
        };
        Prep::Ready(DP { re, prog: refm::compile(n), prog_vm, vm, interesting_groups: groups_in_context(n, false), has_cond: n.has_cond() })
    }

    fn all_offsets(&self) -> bool {
        !self.only_pos0
    }

    fn spell(&self, n: &Node) -> String {
        n.to_pattern_with(&crate::ast::PrintOpts { cond_omit_empty_no: self.omit_empty_no, backref_style: if self.ref_style == 1 { 1 } else { 0 }, rel_backrefs: self.ref_style == 2, ..Default::default() })
    }

    fn extra(&self) -> serde_json::Value {
        serde_json::json!({"omit_empty_no": self.omit_empty_no, "free_cond_refs": self.free_cond_refs, "f1_undisputed": self.f1_undisputed, "ref_style": self.ref_style})
    }

    fn eval(&self, _ctx: &RunCtx, p: &DP, _n: &Node, t: &str, pos: usize) -> Verdict {
        let (r, rs) = refm::search(&p.prog, t, pos, false);
        if r == RefResult::Budget {
            return Verdict::Skip("reference-budget");
        }
        if let Some(pv) = &p.prog_vm {
            let (r2, _) = refm::search(pv, t, pos, false);
            if r2 != r {
                return Verdict::Skip("disputed:perl-rule != vm-rule for the empty iteration");
            }
        }
        let matched = matches!(r, RefResult::Match(_));
        if self.caps {
            let imp = engine::captures_from_pos(&p.re, t, pos);
            let fail = match (&imp, &r) {
                (Out::Val(None), RefResult::NoMatch) => None,
                (Out::Val(Some(v)), RefResult::Match(c)) => {
                    if v.len() != c.len() {
                        Some("caps-len")
                    } else if v[0] != c[0] {
                        Some("span")
                    } else if v != c {
                        Some("caps")
                    } else {
                        None
                    }
                }
                (Out::Val(_), _) => Some("existence"),
                (Out::Err(_), _) => Some("runtime-error"),
                (Out::Panic(_), _) => Some("panic"),
            };
            if let Some(k) = fail {
                return Verdict::Fail(Fail::new(k, format!("{:?}", r), imp.show()));
            }
            let nontrivial = if self.cond_focus { p.has_cond && (matched || rs.backtracks >= 1) } else { matched && p.interesting_groups && p.vm };
            Verdict::Pass { nontrivial, class: if matched { Some("outcome:match") } else { Some("outcome:no-match") } }
        } else {
            let imp = engine::find_from_pos(&p.re, t, pos);
            let want = match &r {
                RefResult::Match(c) => c[0],
                _ => None,
            };
            let fail = match &imp {
                Out::Val(got) => {
                    if got.is_some() != want.is_some() {
                        Some("existence")
                    } else if *got != want {
                        Some("span")
                    } else {
                        None
                    }
                }
                Out::Err(_) => Some("runtime-error"),
                Out::Panic(_) => Some("panic"),
            };
            if let Some(k) = fail {
                return Verdict::Fail(Fail::new(k, format!("{:?}", want), imp.show()));
            }
            if pos == 0 {
                let im = engine::guard(|| p.re.is_match(t));
                if im != Out::Val(want.is_some()) {
                    return Verdict::Fail(Fail::new("is_match", format!("{}", want.is_some()), im.show()));
                }
            }
            let nontrivial = p.vm && (matched || rs.backtracks >= 2);
            Verdict::Pass { nontrivial, class: if matched { Some("outcome:match") } else { Some("outcome:no-match") } }
        }
    }
}

/// possessive quantifiers and atomic groups, look-arounds, conditionals present (C20 companion)
pub fn has_commit_construct(n: &Node) -> bool {
    n.any(|x| matches!(x, Atomic(_) | Look(..) | CondExpr(..) | CondGroup(..) | Repeat(_, _, _, Q::Poss)))
}
