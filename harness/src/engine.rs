//! Thin access layer to the crate under test (public API + doc(hidden) internals only).
use crate::refm::Span;
use fancy_regex::internal::{analyze, compile, Insn};
use fancy_regex::{Captures, Expr, Regex, RegexBuilder};
use std::fmt;
use std::panic::{catch_unwind, AssertUnwindSafe};

pub fn silence_panics() {
    std::panic::set_hook(Box::new(|_| {}));
}

pub enum Built {
    Ok(Regex),
    Err(fancy_regex::Error),
    Panic(String),
}

impl Built {
    pub fn ok_regex(self) -> Option<Regex> {
        match self {
            Built::Ok(r) => Some(r),
            _ => None,
        }
    }
}

pub fn panic_msg(e: Box<dyn std::any::Any + Send>) -> String {
    if let Some(s) = e.downcast_ref::<&str>() {
        s.to_string()
    } else if let Some(s) = e.downcast_ref::<String>() {
        s.clone()
    } else {
        "<panic>".to_string()
    }
}

pub fn build(pat: &str) -> Built {
    match catch_unwind(|| Regex::new(pat)) {
        Ok(Ok(r)) => Built::Ok(r),
        Ok(Err(e)) => Built::Err(e),
        Err(e) => Built::Panic(panic_msg(e)),
    }
}

pub fn build_with(pat: &str, f: impl FnOnce(&mut RegexBuilder)) -> Built {
    match catch_unwind(AssertUnwindSafe(|| {
        let mut b = RegexBuilder::new(pat);
        f(&mut b);
        b.build()
    })) {
        Ok(Ok(r)) => Built::Ok(r),
        Ok(Err(e)) => Built::Err(e),
        Err(e) => Built::Panic(panic_msg(e)),
    }
}

struct Dbg<'a>(&'a Regex);
impl fmt::Display for Dbg<'_> {
    fn fmt(&self, f: &mut fmt::Formatter<'_>) -> fmt::Result {
        self.0.debug_print(f)
    }
}

/// Program listing (or "wrapped ..." for a fully delegated regex)
pub fn debug_listing(re: &Regex) -> String {
    format!("{}", Dbg(re))
}

/// true if the regex runs on the backtracking VM (not handed to the automata engine as a whole)
pub fn is_vm(re: &Regex) -> bool {
    !debug_listing(re).starts_with("wrapped")
}

/// Delegate patterns and the instruction kinds of the VM program of `pat` (None if it does not compile)
pub fn program_shape(pat: &str) -> Option<(Vec<String>, Vec<&'static str>)> {
    let tree = Expr::parse_tree(pat).ok()?;
    let tree = fancy_regex::wrap_tree(tree);
    let info = analyze(&tree).ok()?;
    let prog = compile(&info).ok()?;
    let mut dels = vec![];
    let mut kinds = vec![];
    for insn in &prog.body {
        kinds.push(match insn {
            Insn::End => "End",
            Insn::Any => "Any",
            Insn::AnyNoNL => "AnyNoNL",
            Insn::Assertion(_) => "Assertion",
            Insn::Lit(_) => "Lit",
            Insn::Split(..) => "Split",
            Insn::Jmp(_) => "Jmp",
            Insn::Save(_) => "Save",
            Insn::Save0(_) => "Save0",
            Insn::Restore(_) => "Restore",
            Insn::RepeatGr { .. } => "RepeatGr",
            Insn::RepeatNg { .. } => "RepeatNg",
            Insn::RepeatEpsilonGr { .. } => "RepeatEpsilonGr",
            Insn::RepeatEpsilonNg { .. } => "RepeatEpsilonNg",
            Insn::FailNegativeLookAround => "FailNegativeLookAround",
            Insn::GoBack(_) => "GoBack",
            Insn::Backref(_) => "Backref",
            Insn::BeginAtomic => "BeginAtomic",
            Insn::EndAtomic => "EndAtomic",
            Insn::Delegate { pattern, .. } => {
                dels.push(pattern.clone());
                "Delegate"
            }
            Insn::ContinueFromPreviousMatchEnd => "ContinueFromPreviousMatchEnd",
            Insn::BackrefExistsCondition(_) => "BackrefExistsCondition",
        });
    }
    Some((dels, kinds))
}

pub fn caps_vec(c: &Captures<'_>) -> Vec<Span> {
    (0..c.len()).map(|i| c.get(i).map(|m| (m.start(), m.end()))).collect()
}

/// Outcome of one engine call, comparable and printable
#[derive(Clone, Debug, PartialEq, Eq)]
pub enum Out<T> {
    Val(T),
    Err(String),
    Panic(String),
}

impl<T: fmt::Debug> Out<T> {
    pub fn show(&self) -> String {
        match self {
            Out::Val(v) => format!("{:?}", v),
            Out::Err(e) => format!("Err({})", e),
            Out::Panic(p) => format!("PANIC({})", p),
        }
    }
}

pub fn guard<T>(f: impl FnOnce() -> fancy_regex::Result<T>) -> Out<T> {
    match catch_unwind(AssertUnwindSafe(f)) {
        Ok(Ok(v)) => Out::Val(v),
        Ok(Err(e)) => Out::Err(err_kind(&e)),
        Err(e) => Out::Panic(panic_msg(e)),
    }
}

pub fn err_kind(e: &fancy_regex::Error) -> String {
    use fancy_regex::{CompileError, Error, RuntimeError};
    match e {
        Error::ParseError(p, k) => format!("ParseError@{}:{:?}", p, k),
        Error::CompileError(CompileError::LookBehindNotConst) => "LookBehindNotConst".into(),
        Error::CompileError(CompileError::InnerError(_)) => "InnerError".into(),
        Error::CompileError(c) => format!("CompileError:{:?}", c),
        Error::RuntimeError(RuntimeError::StackOverflow) => "StackOverflow".into(),
        Error::RuntimeError(RuntimeError::BacktrackLimitExceeded) => "BacktrackLimitExceeded".into(),
        other => format!("{:?}", other),
    }
}

pub fn captures_from_pos(re: &Regex, t: &str, pos: usize) -> Out<Option<Vec<Span>>> {
    guard(|| re.captures_from_pos(t, pos).map(|o| o.map(|c| caps_vec(&c))))
}

pub fn find_from_pos(re: &Regex, t: &str, pos: usize) -> Out<Span> {
    guard(|| re.find_from_pos(t, pos).map(|o| o.map(|m| (m.start(), m.end()))))
}

/// Collect find_iter (bounded); the item list ends with an Err marker if the iterator yielded one
pub fn find_iter_spans(re: &Regex, t: &str, max: usize) -> Out<(Vec<(usize, usize)>, Option<String>)> {
    match catch_unwind(AssertUnwindSafe(|| {
        let mut v = vec![];
        let mut err = None;
        for m in re.find_iter(t) {
            match m {
                Ok(m) => v.push((m.start(), m.end())),
                Err(e) => {
                    err = Some(err_kind(&e));
                    break;
                }
            }
            if v.len() > max {
                break;
            }
        }
        (v, err)
    })) {
        Ok(v) => Out::Val(v),
        Err(e) => Out::Panic(panic_msg(e)),
    }
}

pub fn char_offsets(t: &str) -> impl Iterator<Item = usize> + '_ {
    t.char_indices().map(|(i, _)| i).chain(std::iter::once(t.len()))
}
