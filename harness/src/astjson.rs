//! JSON encoding of the harness AST (used by replay files and known-finding witnesses).
use crate::ast::{Node, Node::*, A, Q};
use serde_json::{json, Value};

fn a_name(a: &A) -> &'static str {
    match a {
        A::StartText => "StartText",
        A::EndText => "EndText",
        A::StartLine => "StartLine",
        A::EndLine => "EndLine",
        A::WordB => "WordB",
        A::NotWordB => "NotWordB",
        A::WordStart => "WordStart",
        A::WordEnd => "WordEnd",
        A::EndZ => "EndZ",
    }
}
fn a_from(s: &str) -> Option<A> {
    Some(match s {
        "StartText" => A::StartText,
        "EndText" => A::EndText,
        "StartLine" => A::StartLine,
        "EndLine" => A::EndLine,
        "WordB" => A::WordB,
        "NotWordB" => A::NotWordB,
        "WordStart" => A::WordStart,
        "WordEnd" => A::WordEnd,
        "EndZ" => A::EndZ,
        _ => return None,
    })
}

pub fn to_json(n: &Node) -> Value {
    match n {
        Empty => json!(["Empty"]),
        Lit(c) => json!(["Lit", c.to_string()]),
        Any => json!(["Any"]),
        AnyNl => json!(["AnyNl"]),
        Class(neg, rs) => json!(["Class", neg, rs.iter().map(|(a, b)| json!([a.to_string(), b.to_string()])).collect::<Vec<_>>()]),
        Perl(c) => json!(["Perl", c.to_string()]),
        Assert(a) => json!(["Assert", a_name(a)]),
        Concat(v) => json!(["Concat", v.iter().map(to_json).collect::<Vec<_>>()]),
        Alt(v) => json!(["Alt", v.iter().map(to_json).collect::<Vec<_>>()]),
        Group(c) => json!(["Group", to_json(c)]),
        Repeat(c, lo, hi, q) => json!(["Repeat", to_json(c), lo, hi, match q {
            Q::Greedy => "greedy",
            Q::Lazy => "lazy",
            Q::Poss => "poss",
        }]),
        Look(c, b, ng) => json!(["Look", to_json(c), b, ng]),
        Atomic(c) => json!(["Atomic", to_json(c)]),
        Backref(g) => json!(["Backref", g]),
        KeepOut => json!(["KeepOut"]),
        ContG => json!(["ContG"]),
        CondGroup(g, y, no) => json!(["CondGroup", g, to_json(y), to_json(no)]),
        CondExpr(c, y, no) => json!(["CondExpr", to_json(c), to_json(y), to_json(no)]),
        GroupExists(g) => json!(["GroupExists", g]),
        Flags(on, off, c) => json!(["Flags", on, off, to_json(c)]),
        SetFlags(on, off) => json!(["SetFlags", on, off]),
        Raw(p, ci) => json!(["Raw", p, ci]),
    }
}

fn ch(v: &Value) -> Option<char> {
    v.as_str()?.chars().next()
}

pub fn from_json(v: &Value) -> Option<Node> {
    let a = v.as_array()?;
    let tag = a.first()?.as_str()?;
    let bx = |i: usize| -> Option<Box<Node>> { Some(Box::new(from_json(a.get(i)?)?)) };
    let list = |i: usize| -> Option<Vec<Node>> { a.get(i)?.as_array()?.iter().map(from_json).collect() };
    let num = |i: usize| -> Option<usize> { Some(a.get(i)?.as_u64()? as usize) };
    Some(match tag {
        "Empty" => Empty,
        "Lit" => Lit(ch(a.get(1)?)?),
        "Any" => Any,
        "AnyNl" => AnyNl,
        "Class" => Class(
            a.get(1)?.as_bool()?,
            a.get(2)?.as_array()?.iter().map(|p| Some((ch(p.get(0)?)?, ch(p.get(1)?)?))).collect::<Option<Vec<_>>>()?,
        ),
        "Perl" => Perl(ch(a.get(1)?)?),
        "Assert" => Assert(a_from(a.get(1)?.as_str()?)?),
        "Concat" => Concat(list(1)?),
        "Alt" => Alt(list(1)?),
        "Group" => Group(bx(1)?),
        "Repeat" => Repeat(
            bx(1)?,
            num(2)? as u32,
            a.get(3)?.as_u64().map(|x| x as u32),
            match a.get(4)?.as_str()? {
                "greedy" => Q::Greedy,
                "lazy" => Q::Lazy,
                "poss" => Q::Poss,
                _ => return None,
            },
        ),
        "Look" => Look(bx(1)?, a.get(2)?.as_bool()?, a.get(3)?.as_bool()?),
        "Atomic" => Atomic(bx(1)?),
        "Backref" => Backref(num(1)?),
        "KeepOut" => KeepOut,
        "ContG" => ContG,
        "CondGroup" => CondGroup(num(1)?, bx(2)?, bx(3)?),
        "CondExpr" => CondExpr(bx(1)?, bx(2)?, bx(3)?),
        "GroupExists" => GroupExists(num(1)?),
        "Raw" => Raw(a.get(1)?.as_str()?.to_string(), a.get(2)?.as_bool()?),
        "SetFlags" => SetFlags(a.get(1)?.as_str()?.to_string(), a.get(2)?.as_str()?.to_string()),
        "Flags" => Flags(a.get(1)?.as_str()?.to_string(), a.get(2)?.as_str()?.to_string(), bx(3)?),
        _ => return None,
    })
}
