pub mod ast;
pub mod astjson;
pub mod core;
pub mod engine;
pub mod gen;
pub mod model;
pub mod props;
pub mod refm;
