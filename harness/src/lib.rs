pub mod ast;
pub mod astjson;
pub mod core;
pub mod engine;
pub mod gen;
pub mod props;
pub mod refm;
