//! fancy_regex::Expr -> harness AST with exactly the same tree shape (one node per Expr node), so
//! that node i of the analysis facts and node i (preorder) of the reference tree are the same node.
use crate::ast::{Node, Q, A};
use fancy_regex::{Assertion, Expr, LookAround};

pub fn conv(e: &Expr) -> Result<Node, String> {
    let bx = |e: &Expr| -> Result<Box<Node>, String> { Ok(Box::new(conv(e)?)) };
    Ok(match e {
        Expr::Empty => Node::Empty,
        Expr::Any { newline: true } => Node::AnyNl,
        Expr::Any { newline: false } => Node::Any,
        Expr::Assertion(a) => Node::Assert(match a {
            Assertion::StartText => A::StartText,
            Assertion::EndText => A::EndText,
            Assertion::StartLine { crlf: false } => A::StartLine,
            Assertion::EndLine { crlf: false } => A::EndLine,
            Assertion::LeftWordBoundary => A::WordStart,
            Assertion::RightWordBoundary => A::WordEnd,
            Assertion::WordBoundary => A::WordB,
            Assertion::NotWordBoundary => A::NotWordB,
            other => return Err(format!("unsupported assertion {:?}", other)),
        }),
        Expr::Literal { val, casei } => {
            let mut it = val.chars();
            let c = it.next().ok_or("empty literal")?;
            if it.next().is_some() {
                return Err("multi-character literal".into());
            }
            if *casei {
                Node::Raw(regex::escape(val), true)
            } else {
                Node::Lit(c)
            }
        }
        Expr::Concat(v) => Node::Concat(v.iter().map(conv).collect::<Result<_, _>>()?),
        Expr::Alt(v) => Node::Alt(v.iter().map(conv).collect::<Result<_, _>>()?),
        Expr::Group(c) => Node::Group(bx(c)?),
        Expr::LookAround(c, la) => {
            let (behind, neg) = match la {
                LookAround::LookAhead => (false, false),
                LookAround::LookAheadNeg => (false, true),
                LookAround::LookBehind => (true, false),
                LookAround::LookBehindNeg => (true, true),
            };
            Node::Look(bx(c)?, behind, neg)
        }
        Expr::Repeat { child, lo, hi, greedy } => {
            let lo32 = u32::try_from(*lo).map_err(|_| "repeat bound too large")?;
            let hi32 = if *hi == usize::MAX { None } else { Some(u32::try_from(*hi).map_err(|_| "repeat bound too large")?) };
            if lo32 > 64 || hi32.map_or(false, |h| h > 64) {
                return Err("repeat bound too large for the reference".into());
            }
            Node::Repeat(bx(child)?, lo32, hi32, if *greedy { Q::Greedy } else { Q::Lazy })
        }
        Expr::Delegate { inner, size, casei } => {
            if *size == 0 && inner == "\n*$" {
                Node::Raw("\\n*$".into(), false)
            } else if *size == 1 {
                Node::Raw(inner.clone(), *casei)
            } else {
                return Err(format!("unsupported delegate {:?}", inner));
            }
        }
        Expr::Backref(g) => Node::Backref(*g),
        Expr::AtomicGroup(c) => Node::Atomic(bx(c)?),
        Expr::KeepOut => Node::KeepOut,
        Expr::ContinueFromPreviousMatchEnd => Node::ContG,
        Expr::BackrefExistsCondition(g) => Node::GroupExists(*g),
        // three children in the crate's tree, so three here: a group-exists condition is the regex
        // condition "(?(g))", which matches the empty string iff the group is set
        Expr::Conditional { condition, true_branch, false_branch } => Node::CondExpr(bx(condition)?, bx(true_branch)?, bx(false_branch)?),
        Expr::SubroutineCall(_) => return Err("subroutine call".into()),
    })
}

/// Parse `pattern` with the crate's parser and convert.
pub fn parse(pattern: &str) -> Result<Node, String> {
    let tree = Expr::parse_tree(pattern).map_err(|e| format!("parse error: {}", e))?;
    conv(&tree.expr)
}
