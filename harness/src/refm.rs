//! Reference backtracking matcher: Perl/PCRE/Oniguruma-style ordered semantics, written as a naive
//! continuation-passing interpreter. Never calls into fancy-regex or the regex crate.
use crate::ast::{Node, A, Q};

pub type Span = Option<(usize, usize)>;

#[derive(Clone, Debug)]
enum RK {
    Empty,
    /// char, case-insensitive
    Lit(char, bool),
    Any,
    AnyNl,
    Class(bool, Vec<(char, char)>, bool),
    Perl(char),
    /// one character accepted by the regex (None = the zero-width `\n*$`)
    Raw(Option<regex::Regex>),
    Assert(A),
    Concat(Vec<R>),
    Alt(Vec<R>),
    Group(usize, Box<R>),
    Repeat(Box<R>, u32, Option<u32>, Q),
    Look(Box<R>, bool, bool),
    Atomic(Box<R>),
    Backref(usize),
    KeepOut,
    ContG,
    CondGroup(usize, Box<R>, Box<R>),
    CondExpr(Box<R>, Box<R>, Box<R>),
    GroupExists(usize),
}

#[derive(Clone, Debug)]
pub struct R {
    /// preorder index of the node in the source `Node` tree
    pub id: usize,
    k: RK,
}

#[derive(Clone, Debug)]
pub struct Prog {
    root: R,
    pub ngroups: usize,
    pub nnodes: usize,
    /// loop semantics for an empty iteration of an unbounded greedy loop beyond its minimum count:
    /// false = Perl (the empty iteration ends the loop), true = the VM's documented rule (it is rejected)
    pub vm_loops: bool,
}

#[derive(Clone, Copy, Default)]
struct Fl {
    i: bool,
    m: bool,
    s: bool,
    u: bool,
}

struct Comp {
    next_id: usize,
    next_group: usize,
}

impl Comp {
    /// members of one Concat / Alt share the flag state progressively (an inline `(?i)` affects what
    /// follows it up to the end of the enclosing group); every other construct scopes it
    fn seq(&mut self, v: &[Node], fl: &mut Fl, alt: bool) -> Vec<R> {
        v.iter()
            .map(|c| match c {
                Node::Concat(w) if alt => {
                    let id = self.next_id;
                    self.next_id += 1;
                    R { id, k: RK::Concat(self.seq(w, fl, false)) }
                }
                Node::SetFlags(on, off) => {
                    let id = self.next_id;
                    self.next_id += 1;
                    apply_flags(fl, on, off);
                    R { id, k: RK::Empty }
                }
                other => self.c(other, *fl),
            })
            .collect()
    }

    fn c(&mut self, n: &Node, fl: Fl) -> R {
        let id = self.next_id;
        self.next_id += 1;
        let bx = |r: R| Box::new(r);
        let k = match n {
            Node::Empty => RK::Empty,
            Node::Lit(c) => RK::Lit(*c, fl.i),
            Node::Any => {
                if fl.s {
                    RK::AnyNl
                } else {
                    RK::Any
                }
            }
            Node::AnyNl => RK::AnyNl,
            Node::Class(neg, rs) => RK::Class(*neg, rs.clone(), fl.i),
            Node::Perl(p) => RK::Perl(*p),
            Node::Raw(p, ci) => {
                if p == "\\n*$" {
                    RK::Raw(None)
                } else {
                    let ci = *ci || fl.i;
                    let pat = if ci { format!(r"\A(?i:{})\z", p) } else { format!(r"\A(?:{})\z", p) };
                    RK::Raw(Some(regex::Regex::new(&pat).expect("delegate pattern accepted by the regex crate")))
                }
            }
            Node::Assert(a) => RK::Assert(match (a, fl.m) {
                (A::StartText, true) => A::StartLine,
                (A::EndText, true) => A::EndLine,
                (a, _) => *a,
            }),
            Node::Concat(v) => {
                let mut f = fl;
                RK::Concat(self.seq(v, &mut f, false))
            }
            Node::Alt(v) => {
                let mut f = fl;
                RK::Alt(self.seq(v, &mut f, true))
            }
            Node::SetFlags(..) => RK::Empty,
            Node::Group(c) => {
                self.next_group += 1;
                let g = self.next_group;
                RK::Group(g, bx(self.c(c, fl)))
            }
            Node::Repeat(c, lo, hi, q) => {
                // `x*+` is parsed by the crate as an atomic group around `x*`, so under the swap-greed flag U the
                // inner repeat is lazy (PCRE keeps possessive quantifiers greedy; no listed property defines U,
                // the reference follows the crate's documented "swap greed" reading)
                if *q == Q::Poss && fl.u {
                    let body = self.c(c, fl);
                    return R { id, k: RK::Atomic(bx(R { id, k: RK::Repeat(bx(body), *lo, *hi, Q::Lazy) })) };
                }
                let q = match (q, fl.u) {
                    (Q::Greedy, true) => Q::Lazy,
                    (Q::Lazy, true) => Q::Greedy,
                    (q, _) => *q,
                };
                RK::Repeat(bx(self.c(c, fl)), *lo, *hi, q)
            }
            Node::Look(c, b, ng) => RK::Look(bx(self.c(c, fl)), *b, *ng),
            Node::Atomic(c) => RK::Atomic(bx(self.c(c, fl))),
            Node::Backref(g) => RK::Backref(*g),
            Node::KeepOut => RK::KeepOut,
            Node::ContG => RK::ContG,
            Node::CondGroup(g, y, no) => RK::CondGroup(*g, bx(self.c(y, fl)), bx(self.c(no, fl))),
            Node::CondExpr(c, y, no) => {
                let cc = self.c(c, fl);
                let yy = self.c(y, fl);
                let nn = self.c(no, fl);
                RK::CondExpr(bx(cc), bx(yy), bx(nn))
            }
            Node::GroupExists(g) => RK::GroupExists(*g),
            Node::Flags(on, off, c) => {
                let mut f2 = fl;
                apply_flags(&mut f2, on, off);
                // transparent: the flag node itself matches what its body matches
                return R { id, k: RK::Concat(vec![self.c(c, f2)]) };
            }
        };
        R { id, k }
    }
}

fn apply_flags(f: &mut Fl, on: &str, off: &str) {
    for (s, v) in [(on, true), (off, false)] {
        for ch in s.chars() {
            match ch {
                'i' => f.i = v,
                'm' => f.m = v,
                's' => f.s = v,
                'U' => f.u = v,
                _ => {}
            }
        }
    }
}

pub fn compile(n: &Node) -> Prog {
    compile_with(n, false)
}

/// `casei`: the whole pattern is case-insensitive (as under `(?i)`)
pub fn compile_with(n: &Node, casei: bool) -> Prog {
    let mut c = Comp { next_id: 0, next_group: 0 };
    let root = c.c(n, Fl { i: casei, ..Fl::default() });
    Prog { root, ngroups: c.next_group, nnodes: c.next_id, vm_loops: false }
}

#[derive(Clone, Debug, PartialEq, Eq)]
pub struct St {
    pub caps: Vec<Span>, // index 0 unused during matching
    pub kstart: Option<usize>,
}

pub struct M<'t> {
    pub text: &'t str,
    pub search_start: usize,
    pub skipped_empty: bool,
    pub steps: u64,
    pub budget: u64,
    pub exhausted: bool,
    /// current recursion depth of the interpreter (bounded, so that the naive interpreter itself cannot overflow the native stack)
    pub depth: u32,
    pub backtracks: u64,
    pub vm_loops: bool,
    /// per node id: bit set of matched lengths in characters (only when observing)
    pub obs: Option<Vec<u64>>,
    /// per node id: number of times a conditional took the yes (bit 0) / no (bit 1) branch
    pub cond_taken: Option<Vec<u8>>,
}

type K<'a, 't> = &'a mut dyn FnMut(&mut M<'t>, usize, &mut St) -> bool;

pub fn is_word(c: char) -> bool {
    c.is_alphanumeric() || c == '_'
}

fn eq_ci(a: char, b: char) -> bool {
    a == b || a.to_lowercase().eq(b.to_lowercase()) || a.to_uppercase().eq(b.to_uppercase())
}

fn class_has(neg: bool, rs: &[(char, char)], ci: bool, x: char) -> bool {
    let inr = |x: char| rs.iter().any(|(a, b)| *a <= x && x <= *b);
    let mut hit = inr(x);
    if !hit && ci {
        hit = x.to_lowercase().any(inr) || x.to_uppercase().any(inr);
    }
    hit != neg
}

impl<'t> M<'t> {
    pub fn new(text: &'t str, search_start: usize) -> Self {
        M {
            text,
            search_start,
            skipped_empty: false,
            steps: 0,
            budget: 2_000_000,
            exhausted: false,
            depth: 0,
            backtracks: 0,
            vm_loops: false,
            obs: None,
            cond_taken: None,
        }
    }
    fn next_char(&self, pos: usize) -> Option<(char, usize)> {
        self.text[pos..].chars().next().map(|c| (c, pos + c.len_utf8()))
    }
    fn prev_char(&self, pos: usize) -> Option<(char, usize)> {
        self.text[..pos].chars().next_back().map(|c| (c, pos - c.len_utf8()))
    }
    fn word_before(&self, pos: usize) -> bool {
        self.prev_char(pos).map_or(false, |(c, _)| is_word(c))
    }
    fn word_after(&self, pos: usize) -> bool {
        self.next_char(pos).map_or(false, |(c, _)| is_word(c))
    }

    fn one(&mut self, pos: usize, st: &mut St, k: K<'_, 't>, f: impl Fn(char) -> bool) -> bool {
        match self.next_char(pos) {
            Some((c, np)) if f(c) => k(self, np, st),
            _ => false,
        }
    }

    fn note_cond(&mut self, id: usize, yes: bool) {
        if let Some(v) = self.cond_taken.as_mut() {
            v[id] |= if yes { 1 } else { 2 };
        }
    }

    /// Invariant: on `false`, st is as on entry. On `true`, st is the final state.
    pub fn m(&mut self, n: &R, pos: usize, st: &mut St, k: K<'_, 't>) -> bool {
        if self.obs.is_some() {
            let id = n.id;
            let mut k2 = |s: &mut M<'t>, p: usize, st: &mut St| {
                let len = s.text[pos.min(p)..p.max(pos)].chars().count().min(63);
                if let Some(o) = s.obs.as_mut() {
                    o[id] |= 1u64 << len;
                }
                k(s, p, st)
            };
            self.m_inner(n, pos, st, &mut k2)
        } else {
            self.m_inner(n, pos, st, k)
        }
    }

    fn m_inner(&mut self, n: &R, pos: usize, st: &mut St, k: K<'_, 't>) -> bool {
        self.steps += 1;
        if self.steps > self.budget || self.depth > 6000 {
            self.exhausted = true;
            return false;
        }
        self.depth += 1;
        let r = self.m_node(n, pos, st, k);
        self.depth -= 1;
        r
    }

    fn m_node(&mut self, n: &R, pos: usize, st: &mut St, k: K<'_, 't>) -> bool {
        match &n.k {
            RK::Empty => k(self, pos, st),
            RK::Lit(c, ci) => {
                let (c, ci) = (*c, *ci);
                self.one(pos, st, k, |x| if ci { eq_ci(x, c) } else { x == c })
            }
            RK::Any => self.one(pos, st, k, |x| x != '\n'),
            RK::AnyNl => self.one(pos, st, k, |_| true),
            RK::Class(neg, rs, ci) => self.one(pos, st, k, |x| class_has(*neg, rs, *ci, x)),
            RK::Perl(p) => {
                let p = *p;
                self.one(pos, st, k, move |x| {
                    let r = match p.to_ascii_lowercase() {
                        'w' => is_word(x),
                        'd' => x.is_ascii_digit() || (!x.is_ascii() && x.is_numeric()),
                        's' => x.is_whitespace(),
                        _ => unreachable!(),
                    };
                    r != p.is_ascii_uppercase()
                })
            }
            RK::Raw(None) => self.text[pos..].bytes().all(|b| b == b'\n') && k(self, self.text.len(), st),
            RK::Raw(Some(re)) => {
                self.one(pos, st, k, |x| {
                    let mut buf = [0u8; 4];
                    re.is_match(x.encode_utf8(&mut buf))
                })
            }
            RK::Assert(a) => {
                let ok = match a {
                    A::StartText => pos == 0,
                    A::EndText => pos == self.text.len(),
                    A::StartLine => pos == 0 || self.text.as_bytes()[pos - 1] == b'\n',
                    A::EndLine => pos == self.text.len() || self.text.as_bytes()[pos] == b'\n',
                    A::WordB => self.word_before(pos) != self.word_after(pos),
                    A::NotWordB => self.word_before(pos) == self.word_after(pos),
                    A::WordStart => !self.word_before(pos) && self.word_after(pos),
                    A::WordEnd => self.word_before(pos) && !self.word_after(pos),
                    A::EndZ => self.text[pos..].bytes().all(|b| b == b'\n'),
                };
                ok && k(self, pos, st)
            }
            RK::Concat(v) => self.concat(v, 0, pos, st, k),
            RK::Alt(v) => {
                for (i, c) in v.iter().enumerate() {
                    if i > 0 {
                        self.backtracks += 1;
                    }
                    if self.m(c, pos, st, k) {
                        return true;
                    }
                    if self.exhausted {
                        return false;
                    }
                }
                false
            }
            RK::Group(g, c) => {
                let g = *g;
                let start = pos;
                self.m(c, pos, st, &mut |s, p, st| {
                    let prev = st.caps[g];
                    st.caps[g] = Some((start, p));
                    if k(s, p, st) {
                        true
                    } else {
                        st.caps[g] = prev;
                        false
                    }
                })
            }
            RK::Repeat(c, lo, hi, q) => match q {
                Q::Poss => {
                    let snap = st.clone();
                    let mut endp = None;
                    let matched = self.rep(c, *lo, *hi, true, 0, pos, st, &mut |_, p, _| {
                        endp = Some(p);
                        true
                    });
                    if self.exhausted {
                        return false;
                    }
                    if matched {
                        if k(self, endp.unwrap(), st) {
                            true
                        } else {
                            *st = snap;
                            false
                        }
                    } else {
                        false
                    }
                }
                _ => self.rep(c, *lo, *hi, *q == Q::Greedy, 0, pos, st, k),
            },
            RK::Atomic(c) => self.atomic(c, pos, st, k),
            RK::Look(c, false, neg) => {
                let snap = st.clone();
                let matched = self.m(c, pos, st, &mut |_, _, _| true);
                if self.exhausted {
                    return false;
                }
                self.look_result(matched, *neg, snap, pos, st, k)
            }
            RK::Look(c, true, neg) => {
                let snap = st.clone();
                // a scoped flag group directly around the body is transparent (the crate's parser erases
                // `(?i:..)` / `(?:..)` wrappers, so the alternatives inside are the top-level alternatives)
                let mut body: &R = c;
                while let RK::Concat(v) = &body.k {
                    if v.len() == 1 {
                        body = &v[0];
                    } else {
                        break;
                    }
                }
                let alts: Vec<&R> = match &body.k {
                    RK::Alt(v) => v.iter().collect(),
                    _ => vec![body],
                };
                let mut matched = false;
                'outer: for alt in alts {
                    // try every start position at or before pos, nearest first
                    let mut s = pos;
                    loop {
                        if self.m(alt, s, st, &mut |_, p, _| p == pos) {
                            matched = true;
                            break 'outer;
                        }
                        if self.exhausted {
                            return false;
                        }
                        match self.prev_char(s) {
                            Some((_, ps)) => s = ps,
                            None => break,
                        }
                    }
                }
                if matched && self.obs.is_some() {
                    // the body as a whole (node c) matched; when c is an Alt only the alternative was observed
                    // by m(); nothing more to record (lengths of the Alt node are the union of its children)
                }
                self.look_result(matched, *neg, snap, pos, st, k)
            }
            RK::Backref(g) => match st.caps.get(*g).copied().flatten() {
                None => false,
                Some((a, b)) => {
                    let r = &self.text[a..b];
                    if self.text[pos..].starts_with(r) {
                        k(self, pos + r.len(), st)
                    } else {
                        false
                    }
                }
            },
            RK::KeepOut => {
                let prev = st.kstart;
                st.kstart = Some(pos);
                if k(self, pos, st) {
                    true
                } else {
                    st.kstart = prev;
                    false
                }
            }
            RK::ContG => pos == self.search_start && !self.skipped_empty && k(self, pos, st),
            RK::GroupExists(g) => st.caps.get(*g).copied().flatten().is_some() && k(self, pos, st),
            RK::CondGroup(g, y, no) => {
                if st.caps.get(*g).copied().flatten().is_some() {
                    self.note_cond(n.id, true);
                    self.m(y, pos, st, k)
                } else {
                    self.note_cond(n.id, false);
                    self.m(no, pos, st, k)
                }
            }
            RK::CondExpr(c, y, no) => {
                // cond tried once (atomically) at pos; if it matches, continue with yes after it,
                // never falling back to no.
                let snap = st.clone();
                let mut endp = None;
                let matched = self.m(c, pos, st, &mut |_, p, _| {
                    endp = Some(p);
                    true
                });
                if self.exhausted {
                    return false;
                }
                if matched {
                    self.note_cond(n.id, true);
                    if self.m(y, endp.unwrap(), st, k) {
                        true
                    } else {
                        *st = snap;
                        false
                    }
                } else {
                    self.note_cond(n.id, false);
                    self.m(no, pos, st, k)
                }
            }
        }
    }

    fn look_result(&mut self, matched: bool, neg: bool, snap: St, pos: usize, st: &mut St, k: K<'_, 't>) -> bool {
        if neg {
            if matched {
                *st = snap;
                false
            } else {
                k(self, pos, st)
            }
        } else if matched {
            if k(self, pos, st) {
                true
            } else {
                *st = snap;
                false
            }
        } else {
            false
        }
    }

    fn atomic(&mut self, c: &R, pos: usize, st: &mut St, k: K<'_, 't>) -> bool {
        let snap = st.clone();
        let mut endp = None;
        let matched = self.m(c, pos, st, &mut |_, p, _| {
            endp = Some(p);
            true
        });
        if self.exhausted {
            return false;
        }
        if matched {
            if k(self, endp.unwrap(), st) {
                true
            } else {
                *st = snap;
                false
            }
        } else {
            false
        }
    }

    fn concat(&mut self, v: &[R], i: usize, pos: usize, st: &mut St, k: K<'_, 't>) -> bool {
        if i == v.len() {
            return k(self, pos, st);
        }
        self.m(&v[i], pos, st, &mut |s, p, st| s.concat(v, i + 1, p, st, k))
    }

    #[allow(clippy::too_many_arguments)]
    fn rep(&mut self, c: &R, lo: u32, hi: Option<u32>, greedy: bool, count: u32, pos: usize, st: &mut St, k: K<'_, 't>) -> bool {
        if self.exhausted {
            return false;
        }
        let can_more = hi.map_or(true, |h| count < h);
        if count < lo {
            return self.m(c, pos, st, &mut |s, p, st| s.rep(c, lo, hi, greedy, count + 1, p, st, k));
        }
        if !can_more {
            return k(self, pos, st);
        }
        // Perl-style guard for unbounded loops: an iteration that consumed nothing ends the loop.
        // (Only relevant for the F1 class, which is excluded from exploration.)
        let unbounded = hi.is_none();
        if greedy {
            let r = self.m(c, pos, st, &mut |s, p, st| {
                if unbounded && p == pos {
                    if s.vm_loops {
                        return false;
                    }
                    return k(s, p, st);
                }
                s.rep(c, lo, hi, greedy, count + 1, p, st, k)
            });
            if r {
                return true;
            }
            if self.exhausted {
                return false;
            }
            self.backtracks += 1;
            k(self, pos, st)
        } else {
            if k(self, pos, st) {
                return true;
            }
            if self.exhausted {
                return false;
            }
            self.backtracks += 1;
            self.m(c, pos, st, &mut |s, p, st| {
                if unbounded && p == pos {
                    return false;
                }
                s.rep(c, lo, hi, greedy, count + 1, p, st, k)
            })
        }
    }
}

#[derive(Debug, Clone, PartialEq, Eq)]
pub enum RefResult {
    NoMatch,
    /// index 0 = overall span
    Match(Vec<Span>),
    Budget,
}

#[derive(Debug, Clone, Default)]
pub struct RefStats {
    pub steps: u64,
    pub backtracks: u64,
}

pub struct SearchOpts<'a> {
    pub skipped_empty: bool,
    pub budget: u64,
    pub obs: Option<&'a mut Vec<u64>>,
    pub cond_taken: Option<&'a mut Vec<u8>>,
}

impl Default for SearchOpts<'_> {
    fn default() -> Self {
        SearchOpts { skipped_empty: false, budget: 2_000_000, obs: None, cond_taken: None }
    }
}

/// Leftmost search from `from`.
pub fn search(prog: &Prog, text: &str, from: usize, skipped_empty: bool) -> (RefResult, RefStats) {
    search_with(prog, text, from, SearchOpts { skipped_empty, ..SearchOpts::default() })
}

pub fn search_with(prog: &Prog, text: &str, from: usize, mut o: SearchOpts<'_>) -> (RefResult, RefStats) {
    let mut m = M::new(text, from);
    m.vm_loops = prog.vm_loops;
    m.skipped_empty = o.skipped_empty;
    m.budget = o.budget;
    if let Some(v) = o.obs.as_mut() {
        m.obs = Some(std::mem::take(*v));
    }
    if let Some(v) = o.cond_taken.as_mut() {
        m.cond_taken = Some(std::mem::take(*v));
    }
    let mut s = from;
    let res = loop {
        let mut st = St { caps: vec![None; prog.ngroups + 1], kstart: None };
        let mut endp = None;
        let ok = m.m(&prog.root, s, &mut st, &mut |_, p, _| {
            endp = Some(p);
            true
        });
        if m.exhausted {
            break RefResult::Budget;
        }
        if ok {
            let end = endp.unwrap();
            let mut start = st.kstart.unwrap_or(s);
            // `\K` can put the start after the end (documented clamp) or, from inside a look-behind,
            // before the position where the search started
            if start > end {
                start = end;
            }
            if start < from {
                start = from;
            }
            let mut caps = st.caps.clone();
            caps[0] = Some((start, end));
            break RefResult::Match(caps);
        }
        match text[s..].chars().next() {
            Some(c) => s += c.len_utf8(),
            None => break RefResult::NoMatch,
        }
        m.backtracks += 1;
    };
    if let Some(v) = o.obs.as_mut() {
        **v = m.obs.take().unwrap();
    }
    if let Some(v) = o.cond_taken.as_mut() {
        **v = m.cond_taken.take().unwrap();
    }
    (res, RefStats { steps: m.steps, backtracks: m.backtracks })
}

/// Reference model of `find_iter` / `captures_iter`: successive leftmost matches, stepping one
/// character after an empty match and dropping an empty match adjacent to the previous match.
/// Returns None if the budget was exhausted.
pub fn iterate(prog: &Prog, text: &str, max_items: usize) -> Option<Vec<Vec<Span>>> {
    let mut out = Vec::new();
    let mut last_end = 0usize;
    let mut last_match: Option<usize> = None;
    loop {
        if last_end > text.len() || out.len() > max_items {
            return Some(out);
        }
        let skipped = matches!(last_match, Some(lm) if last_end > lm);
        let (r, _) = search(prog, text, last_end, skipped);
        let caps = match r {
            RefResult::Budget => return None,
            RefResult::NoMatch => return Some(out),
            RefResult::Match(c) => c,
        };
        let (s, e) = caps[0].unwrap();
        if s == e {
            last_end = match text[e..].chars().next() {
                Some(c) => e + c.len_utf8(),
                None => e + 1,
            };
            if Some(e) == last_match {
                continue;
            }
        } else {
            last_end = e;
        }
        last_match = Some(e);
        out.push(caps);
    }
}

#[cfg(test)]
mod tests {
    use super::*;
    use crate::ast::Node::*;
    fn s(n: &Node, t: &str) -> RefResult {
        search(&compile(n), t, 0, false).0
    }
    #[test]
    fn atomic_doc_example() {
        // ^a(?>bc|b)c$
        let n = Concat(vec![
            Assert(A::StartText),
            Lit('a'),
            Atomic(Box::new(Alt(vec![Concat(vec![Lit('b'), Lit('c')]), Lit('b')]))),
            Lit('c'),
            Assert(A::EndText),
        ]);
        assert!(matches!(s(&n, "abcc"), RefResult::Match(_)));
        assert_eq!(s(&n, "abc"), RefResult::NoMatch);
    }
    #[test]
    fn backref_unset_fails() {
        let n = Concat(vec![Alt(vec![Group(Box::new(Lit('a'))), Lit('b')]), Backref(1)]);
        assert_eq!(s(&n, "bb"), RefResult::NoMatch);
        assert_eq!(s(&n, "aa"), RefResult::Match(vec![Some((0, 2)), Some((0, 1))]));
    }
    #[test]
    fn lookbehind_alt() {
        let n = Concat(vec![Look(Box::new(Alt(vec![Lit('a'), Concat(vec![Lit('b'), Lit('b')])])), true, false), Lit('c')]);
        assert_eq!(s(&n, "bbc"), RefResult::Match(vec![Some((2, 3))]));
        assert_eq!(s(&n, "bc"), RefResult::NoMatch);
    }
    #[test]
    fn iterate_empty() {
        let n = Repeat(Box::new(Lit('a')), 0, None, Q::Greedy);
        let it = iterate(&compile(&n), "baab", 10).unwrap();
        let spans: Vec<_> = it.iter().map(|c| c[0].unwrap()).collect();
        assert_eq!(spans, vec![(0, 0), (1, 3), (4, 4)]);
    }

    /// Self-check of the oracle: on the syntax shared with the regex crate (outside the class with
    /// disputed loop semantics) the reference matcher agrees with regex::Regex on spans and groups.
    #[test]
    fn agrees_with_regex_crate_on_common_syntax() {
        let cfg = crate::gen::common_cfg();
        let pats: Vec<Node> = crate::gen::dedup_by_print(crate::gen::trees_upto(&cfg, 3)).into_iter().filter(|n| !n.has_f1()).collect();
        let texts = crate::gen::text_set(&crate::gen::SIGMA5, 3, 0);
        let mut compared = 0u64;
        for n in &pats {
            let pat = n.to_pattern();
            let Ok(rr) = regex::Regex::new(&pat) else { continue };
            let prog = compile(n);
            for t in &texts {
                for from in t.char_indices().map(|(i, _)| i).chain(std::iter::once(t.len())) {
                    let (r, _) = search(&prog, t, from, false);
                    let want = rr.captures_at(t, from).map(|c| c.iter().map(|m| m.map(|m| (m.start(), m.end()))).collect::<Vec<_>>());
                    let got = match r {
                        RefResult::Match(c) => Some(c),
                        RefResult::NoMatch => None,
                        RefResult::Budget => continue,
                    };
                    assert_eq!(got, want, "pattern {:?} text {:?} from {}", pat, t, from);
                    compared += 1;
                }
            }
        }
        assert!(compared > 500_000, "compared only {}", compared);
    }
}
